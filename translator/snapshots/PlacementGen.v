(* GENERATED on every run by /verif/translator/gen_placement.py from src/style/grid.rs, src/compute/grid/{implicit_grid,mod}.rs,
   src/compute/grid/types/{coordinates,grid_track_counts}.rs -- do not edit. *)
From Coq Require Import ZArith Bool List.
From TV Require Import Model.PlacementBase.
Open Scope Z_scope.
(* Flow::is_dense *)
Definition is_dense (self_ : flow) : bool :=
  (match self_ with | (FRow | FColumn) => false | (FRowDense | FColumnDense) => true end).
(* Flow::primary_axis *)
Definition primary_axis (self_ : flow) : axis :=
  (match self_ with | (FRow | FRowDense) => Horizontal | (FColumn | FColumnDense) => Vertical end).
(* GridLine::into_origin_zero_line *)
Definition into_origin_zero_line (self_ : Z) (explicit_track_count : Z) : res (Z) :=
  (do t1 <- (u16_add explicit_track_count 1); (match (Z.compare self_ 0) with | Gt => (i16_sub self_ 1) | Lt => (i16_add self_ (u16_as_i16 t1)) | Eq => Err Panic end)).
(* OZL::into_track_vec_index *)
Definition into_track_vec_index (self_ : Z) (track_counts : TrackCounts) : res (Z) :=
  (do t1 <- (i16_neg (u16_as_i16 (tc_neg track_counts))); (do _ <- (if (Z.geb self_ t1) then Ok tt else Err Panic); (do t2 <- (u16_add (tc_explicit track_counts) (tc_pos track_counts)); (do _ <- (if (Z.leb self_ (u16_as_i16 t2)) then Ok tt else Err Panic); (do t3 <- (i16_add self_ (u16_as_i16 (tc_neg track_counts))); (usize_mul 2 (i16_as_usize t3))))))).
(* OZL::implied_negative_implicit_tracks *)
Definition implied_negative_implicit_tracks (self_ : Z) : Z :=
  (if (Z.ltb self_ 0) then (i16_unsigned_abs self_) else 0).
(* OZL::implied_positive_implicit_tracks *)
Definition implied_positive_implicit_tracks (self_ : Z) (explicit_track_count : Z) : res (Z) :=
  (if (Z.gtb self_ (u16_as_i16 explicit_track_count)) then (u16_sub (i16_as_u16 self_) explicit_track_count) else Ok 0).
(* LineOZL::span *)
Definition line_span (self_ : Ln Z) : res (Z) :=
  (do t1 <- (i16_sub (l_end self_) (l_start self_)); Ok (i16_as_u16 (Z.max t1 0))).
(* TC::len *)
Definition tc_len (self_ : TrackCounts) : res (Z) :=
  (do t1 <- (u16_add (tc_neg self_) (tc_explicit self_)); (do t2 <- (u16_add t1 (tc_pos self_)); Ok (u16_as_usize t2))).
(* TC::implicit_start_line *)
Definition implicit_start_line (self_ : TrackCounts) : res (Z) :=
  (i16_neg (u16_as_i16 (tc_neg self_))).
(* TC::implicit_end_line *)
Definition implicit_end_line (self_ : TrackCounts) : res (Z) :=
  (do t1 <- (u16_add (tc_explicit self_) (tc_pos self_)); Ok (u16_as_i16 t1)).
(* TC::oz_line_to_next_track *)
Definition oz_line_to_next_track (self_ : TrackCounts) (index : Z) : res (Z) :=
  (i16_add index (u16_as_i16 (tc_neg self_))).
(* TC::oz_line_range_to_track_range *)
Definition oz_line_range_to_track_range (self_ : TrackCounts) (input : Ln Z) : res ((Z * Z)) :=
  (do t1 <- (oz_line_to_next_track self_ (l_start input)); (do t2 <- (oz_line_to_next_track self_ (l_end input)); Ok (t1, t2))).
(* TC::track_to_prev_oz_line *)
Definition track_to_prev_oz_line (self_ : TrackCounts) (index : Z) : res (Z) :=
  (i16_sub (u16_as_i16 index) (u16_as_i16 (tc_neg self_))).
(* GP::into_origin_zero_placement *)
Definition into_origin_zero_placement (self_ : GP) (explicit_track_count : Z) : res (GP) :=
  (match self_ with | Auto => Ok Auto | (Span span) => Ok (Span span) | (Line line) => (match line with | 0 => Ok Auto | _ => (do t1 <- (into_origin_zero_line line explicit_track_count); Ok (Line t1)) end) end).
(* LineAny::indefinite_span *)
Definition indefinite_span (self_ : Ln GP) : res (Z) :=
  (match ((l_start self_), (l_end self_)) with | ((Line _), Auto) => Ok 1 | (Auto, (Line _)) => Ok 1 | (Auto, Auto) => Ok 1 | ((Line _), (Span span)) => Ok span | ((Span span), (Line _)) => Ok span | ((Span span), Auto) => Ok span | (Auto, (Span span)) => Ok span | ((Span span), (Span _)) => Ok span | ((Line _), (Line _)) => Err Panic end).
(* LineGP::is_definite *)
Definition is_definite (self_ : Ln GP) : bool :=
  (match ((l_start self_), (l_end self_)) with | ((Line line), _) => if (negb (Z.eqb line 0)) then true else (match ((l_start self_), (l_end self_)) with | (_, (Line line)) => if (negb (Z.eqb line 0)) then true else false | _ => false end) | _ => (match ((l_start self_), (l_end self_)) with | (_, (Line line)) => if (negb (Z.eqb line 0)) then true else false | _ => false end) end).
(* LineGP::into_origin_zero *)
Definition into_origin_zero (self_ : Ln GP) (explicit_track_count : Z) : res (Ln GP) :=
  (do t1 <- (into_origin_zero_placement (l_start self_) explicit_track_count); (do t2 <- (into_origin_zero_placement (l_end self_) explicit_track_count); Ok (mkLn t1 t2))).
(* LineOZ::is_definite *)
Definition is_definite_oz (self_ : Ln GP) : bool :=
  (match ((l_start self_), (l_end self_)) with | (((Line _), _) | (_, (Line _))) => true | _ => false end).
(* LineOZ::resolve_definite_grid_lines *)
Definition resolve_definite_grid_lines (self_ : Ln GP) : res (Ln Z) :=
  (match ((l_start self_), (l_end self_)) with | ((Line line1), (Line line2)) => (if (Z.eqb line1 line2) then (do t1 <- (ozl_add_u16 line1 1); Ok (mkLn line1 t1)) else Ok (mkLn (Z.min line1 line2) (Z.max line1 line2))) | ((Line line), (Span span)) => (do t3 <- (ozl_add_u16 line span); Ok (mkLn line t3)) | ((Line line), Auto) => (do t4 <- (ozl_add_u16 line 1); Ok (mkLn line t4)) | ((Span span), (Line line)) => (do t5 <- (ozl_sub_u16 line span); Ok (mkLn t5 line)) | (Auto, (Line line)) => (do t6 <- (ozl_sub_u16 line 1); Ok (mkLn t6 line)) | _ => Err Panic end).
(* LineOZ::resolve_indefinite_grid_tracks *)
Definition resolve_indefinite_grid_tracks (self_ : Ln GP) (start : Z) : res (Ln Z) :=
  (match ((l_start self_), (l_end self_)) with | (Auto, Auto) => (do t1 <- (ozl_add_u16 start 1); Ok (mkLn start t1)) | ((Span span), Auto) => (do t2 <- (ozl_add_u16 start span); Ok (mkLn start t2)) | (Auto, (Span span)) => (do t3 <- (ozl_add_u16 start span); Ok (mkLn start t3)) | ((Span span), (Span _)) => (do t4 <- (ozl_add_u16 start span); Ok (mkLn start t4)) | _ => Err Panic end).
(* child_min_line_max_line_span *)
Definition child_min_line_max_line_span (line : Ln GP) (explicit_track_count : Z) : res ((Z * Z * Z)) :=
  (do t1 <- (into_origin_zero line explicit_track_count); (do t4 <- (match ((l_start t1), (l_end t1)) with | ((Line track1), (Line track2)) => Ok (if (Z.eqb track1 track2) then track1 else (Z.min track1 track2)) | ((Line track), Auto) => Ok track | ((Line track), (Span _)) => Ok track | (Auto, (Line track)) => (ozl_sub_u16 track 1) | ((Span span), (Line track)) => (ozl_sub_u16 track span) | ((Auto | (Span _)), (Auto | (Span _))) => Ok 0 end); (do t9 <- (match ((l_start t1), (l_end t1)) with | ((Line track1), (Line track2)) => (if (Z.eqb track1 track2) then (ozl_add_u16 track1 1) else Ok (Z.max track1 track2)) | ((Line track), Auto) => (ozl_add_u16 track 1) | ((Line track), (Span span)) => (ozl_add_u16 track span) | (Auto, (Line track)) => Ok track | ((Span _), (Line track)) => Ok track | ((Auto | (Span _)), (Auto | (Span _))) => Ok 0 end); (do t11 <- (match ((l_start t1), (l_end t1)) with | ((Auto | (Span _)), (Auto | (Span _))) => (indefinite_span t1) | _ => Ok 1 end); Ok (t4, t9, t11))))).
(* to_one_indexed_grid_line *)
Definition to_one_indexed_grid_line (grid_track_index : Z) : res (Z) :=
  (u16_add (Z.div grid_track_index 2) 1).
