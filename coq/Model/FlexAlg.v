(* The flexbox algorithm (src/compute/flexbox.rs `compute_flexbox_layout` -> `compute_preliminary`, l.164-415, ALL of it) as a RESUMPTION
   over the engine interface of Model/Engine.v (`Alg`: Query a child / SetLayout on a child / Ret):

     every `tree.measure_child_size(..)`      = Query child (ComputeSize input)   -- the continuation reads `.size` (one axis of it)
     every `tree.perform_child_layout(..)`    = Query child (PerformLayout input)
     every `tree.set_unrounded_layout(..)`    = SetLayout child layout
     `tree.get_flexbox_child_style(child)`    = the child-style list the algorithm is applied to

   so that the interface premises of the engine-level theorems (C05 HiddenBlind / SetsZeroOnHidden, C06 AbsBlind, C01 WF / H1 / H3 / NS /
   HQ) can be STATED for it and proved or refuted (Proofs/FlexAlg*.v).  Definitions only.

   Call sites, in order (flexbox.rs):
     l.758  determine_flex_base_size           measure, ContentSize: the flex base size (only without definite flex-basis / main size)
     l.801  determine_flex_base_size           measure, ContentSize: the min-content main size (ALWAYS: the argument of `unwrap_or` is eager)
     l.1056 determine_container_main_size      measure, InherentSize (indefinite main size under a min/max-content constraint)
     l.1385 determine_hypothetical_cross_size  measure, ContentSize (only without definite cross size)
     l.1440 calculate_children_base_lines      PERFORM_CHILD_LAYOUT, ContentSize: rows, lines with >= 2 baseline-aligned items -- issued
                                               BEFORE the `run_mode == ComputeSize` return of l.359 (see Proofs/FlexAlgIface.v: NS refuted)
     l.1889 calculate_flex_item                perform_child_layout + l.1934 set_unrounded_layout, every item, in walk order
     l.2146 absolute pass                      perform_child_layout + l.2293 set_unrounded_layout, every box-generating absolute child
     l.380  hidden pass                        perform_child_layout (canonical hidden input) + l.390 set_unrounded_layout(with_order)

   Arithmetic: reused where a model exists -- Model/FlexBase.v (styled_known_dimensions, child_info, base_env, determine_available_space),
   Model/FlexLines.v (collect_flex_lines), Model/Flex.v (resolve_flexible_lengths, distribute_remaining_free_space), Model/FlexContainer.v
   (handle_align_content_stretch, used_cross_size, align_flex_lines, line_starts), Model/FlexFraction.v, Gen/FlexGen.v, Gen/MathGen.v,
   Gen/AbsPosGen.v (the absolute pass, through Model/FlexAlgAbs.v), Gen/FiltersGen.v (`flex_generate_items`: the translated item pipeline)
   -- and transcribed here, float operations in source order, where none did: scrollbar gutters of the container, relative insets,
   align-self: baseline (query, line cross size, alignment), determine_container_main_size (all three branches), content sizes, the
   container's first baseline.  Tied to the implementation by K (`vh flexalg cases`, Model/FlexAlgRun.v): event by event, bit for bit.

   Deviations (documented in notes/FLEXALG.md): `.max_by(total_cmp)` over line lengths is an IEEE `>` fold (differs only for NaN);
   resolve_flexible_lengths is fuelled (`None` = out of fuel, never: C07_loop_terminates) and a `None` leaves the line unchanged.

   The proofs use NO arithmetic fact: every loop is an instance of `qmap` (queries only) or of a query-then-store loop, the work items keep
   their node through every step by construction (`set_*` only), and lines are always regrouped from the flat item list. *)
From Coq Require Import ZArith Bool List.
From TV Require Import Model.Common Model.Leaf Gen.FlexGen Model.Flex Model.FlexLines Model.FlexBase Model.FlexContainer Model.FlexFraction.
From TV Require Import Model.FiltersBase Gen.FiltersGen Model.ItemFilters Model.FlexAlgBase Model.FlexAlgAbs.
From TV Require Model.Engine.
Import ListNotations.
Close Scope Z_scope.

Section FlexAlg.
  Context {T : Type} `{Num T}.
  Local Open Scope num_scope.

  Notation Out := (LayoutOutput T).
  Notation Alg := (Engine.Alg (FIn T) Out (FLay T)).
  Notation Ret := (Engine.Ret (FIn T) Out (FLay T)).
  Notation Query := (Engine.Query (FIn T) Out (FLay T)).
  Notation SetLayout := (Engine.SetLayout (FIn T) Out (FLay T)).

  (* ------------------------------------------------------------------------------------------------ query combinators *)

  (* what the algorithm reads of an answer before the final pass: `.size` and `.first_baselines.y` *)
  Definition Ans : Type := (Size T * option T)%type.
  Definition ans_of (o : Out) : Ans := (out_size o, py (first_baselines o)).

  (* a run of queries to one child whose inputs do not depend on the answers *)
  Fixpoint qseq (c : nat) (is : list (FIn T)) (acc : list Ans) (k : list Ans -> Alg) : Alg :=
    match is with
    | [] => k (rev acc)
    | i :: r => Query c i (fun o => qseq c r (ans_of o :: acc) k)
    end.

  (* for every item in turn: its queries, then its update *)
  Fixpoint qmap {W : Type} (node : W -> nat) (asks : W -> list (FIn T)) (upd : W -> list Ans -> W) (ws : list W)
           (k : list W -> Alg) : Alg :=
    match ws with
    | [] => k []
    | w :: r => qseq (node w) (asks w) [] (fun answers => qmap node asks upd r (fun r' => k (upd w answers :: r')))
    end.

  (* for every element in turn: one PerformLayout-style query, then the layout is stored; `st` is threaded *)
  Fixpoint qsloop {W St : Type} (node : W -> nat) (ask : W -> St -> FIn T) (lay : W -> St -> Out -> FLay T)
           (step : W -> St -> Out -> St) (ws : list W) (st : St) (k : St -> Alg) : Alg :=
    match ws with
    | [] => k st
    | w :: r => Query (node w) (ask w st) (fun o => SetLayout (node w) (lay w st o) (qsloop node ask lay step r (step w st o) k))
    end.

  (* ------------------------------------------------------------------------------------------------ lists *)

  (* lines are always obtained from the flat list and the lengths computed by collect_flex_lines; whatever is left over forms a
     last line, so that `concat (regroup lens l) = l` for every `lens` *)
  Fixpoint regroup {A} (lens : list nat) (l : list A) : list (list A) :=
    match lens with
    | [] => match l with [] => [] | _ => [l] end
    | n :: r => firstn n l :: regroup r (skipn n l)
    end.

  (* ws paired with xs; an element without partner keeps `d w` *)
  Fixpoint zip_total {A X} (f : A -> X -> A) (ws : list A) (xs : list X) : list A :=
    match ws, xs with
    | [], _ => []
    | w :: r, [] => w :: r
    | w :: r, x :: xr => f w x :: zip_total f r xr
    end.

  (* one function per line (the line's index is passed along) *)
  Fixpoint map_lines_from {A} (i : nat) (g : nat -> list A -> list A) (lines : list (list A)) : list (list A) :=
    match lines with
    | [] => []
    | ln :: r => g i ln :: map_lines_from (S i) g r
    end.
  Definition per_line {A} (lens : list nat) (g : nat -> list A -> list A) (ws : list A) : list A :=
    concat (map_lines_from 0 g (regroup lens ws)).

  Definition nth_or (l : list T) (i : nat) : T := nth i l zero.

  (* ------------------------------------------------------------------------------------------------ constants *)

  Definition row_axis (row : bool) : ReqAxis := if row then AxHorizontal else AxVertical.        (* dir.main_axis() *)
  Definition cross_axis (row : bool) : ReqAxis := if row then AxVertical else AxHorizontal.      (* dir.cross_axis() *)
  Definition line_FALSE : Line bool := mkLine false false.
  Definition p_main (row : bool) (p : Point T) : T := if row then px p else py p.
  Definition p_cross (row : bool) (p : Point T) : T := if row then py p else px p.

  (* compute_constants: scrollbar_gutter = overflow.transpose().map(Scroll => scrollbar_width | _ => 0) *)
  Definition scrollbar_gutter (s : FStyle T) : Point T :=
    let ov := point_transpose (overflow (fs_core s)) in
    let sw := scrollbar_width (fs_core s) in
    mkPoint (if is_scroll (px ov) then sw else zero) (if is_scroll (py ov) then sw else zero).

  Definition container_align_items (s : FStyle T) : FAlign := opt_unwrap_or (fs_align_items s) FA_Stretch.

  (* compute_constants (l.419-491).  `k_inset` = content_box_inset = padding + border, right += gutter.x, bottom += gutter.y *)
  Definition flex_constants (s : FStyle T) (known_dimensions parent_size : Size (option T)) : Constants T :=
    let cs := to_cstyle s in
    let margin := rect_resolve_or_zero_lpa (cs_margin cs) (width parent_size) in
    let padding := rect_resolve_or_zero_lp (cs_padding cs) (width parent_size) in
    let border := rect_resolve_or_zero_lp (cs_border cs) (width parent_size) in
    let padding_border_sum := size_add (sum_axes padding) (sum_axes border) in
    let box_sizing_adjustment := match cs_box_sizing cs with ContentBox => padding_border_sum | BorderBox => size_ZERO end in
    let g := scrollbar_gutter s in
    let pb := rect_add padding border in
    let content_box_inset := mkRect (r_left pb) (r_right pb + px g) (r_top pb) (r_bottom pb + py g) in
    let node_outer_size := known_dimensions in
    let node_inner_size := size_maybe_sub_of node_outer_size (sum_axes content_box_inset) in
    let gap := size_resolve_or_zero_lp (cs_gap cs) (size_or_zero node_inner_size) in
    mkConstants (cs_row cs) (cs_reverse cs) (cs_wrap cs) (cs_wrap_reverse cs)
                (resolved_min_max (cs_min cs) parent_size (cs_aspect cs) box_sizing_adjustment)
                (resolved_min_max (cs_max cs) parent_size (cs_aspect cs) box_sizing_adjustment)
                margin border gap content_box_inset (fa_to_as (container_align_items s))
                (opt_unwrap_or (cs_align_content cs) AC_Stretch) (cs_justify cs) node_outer_size node_inner_size.

  (* the constants once the main size is known: node_inner_size / node_outer_size main set, the main gap re-resolved *)
  Definition with_main_size (s : FStyle T) (k : Constants T) (outer_main inner_main : T) : Constants T :=
    let row := k_row k in
    let new_gap := opt_unwrap_or (maybe_resolve_lp (s_main row (fs_gap s)) (Some inner_main)) zero in
    mkConstants (k_row k) (k_reverse k) (k_wrap k) (k_wrap_reverse k) (k_min k) (k_max k) (k_margin k) (k_border k)
                (s_with_main row (k_gap k) new_gap) (k_inset k) (k_align_items k) (k_align_content k) (k_justify k)
                (s_with_main row (k_outer k) (Some outer_main)) (s_with_main row (k_inner k) (Some inner_main)).

  (* ------------------------------------------------------------------------------------------------ work items *)

  Record WItem := mkW {
    w_node : nat;                        (* FlexItem.node = the child's position; also FlexItem.order *)
    w_style : FStyle T;
    w_ci : ChildInfo T;                  (* size min_size max_size margin margin_is_auto padding border align_self *)
    w_baseline_align : bool;             (* align_self == Baseline *)
    w_inset : Rect (option T);
    w_fi : FlexItem T;                   (* the main-axis fields (Model/Flex.v) *)
    w_cff : T;                           (* content_flex_fraction *)
    w_x : Cross T;                       (* the cross-axis fields (Model/FlexContainer.v) *)
    w_baseline : T;
    w_ask_baseline : bool;               (* its line has >= 2 baseline-aligned items (and the container is a row) *)
  }.
  Definition set_fi (w : WItem) (fi : FlexItem T) : WItem :=
    mkW (w_node w) (w_style w) (w_ci w) (w_baseline_align w) (w_inset w) fi (w_cff w) (w_x w) (w_baseline w) (w_ask_baseline w).
  Definition set_cff (w : WItem) (v : T) : WItem :=
    mkW (w_node w) (w_style w) (w_ci w) (w_baseline_align w) (w_inset w) (w_fi w) v (w_x w) (w_baseline w) (w_ask_baseline w).
  Definition set_x (w : WItem) (x : Cross T) : WItem :=
    mkW (w_node w) (w_style w) (w_ci w) (w_baseline_align w) (w_inset w) (w_fi w) (w_cff w) x (w_baseline w) (w_ask_baseline w).
  Definition set_baseline (w : WItem) (b : T) : WItem :=
    mkW (w_node w) (w_style w) (w_ci w) (w_baseline_align w) (w_inset w) (w_fi w) (w_cff w) (w_x w) b (w_ask_baseline w).
  Definition set_ask_baseline (w : WItem) (b : bool) : WItem :=
    mkW (w_node w) (w_style w) (w_ci w) (w_baseline_align w) (w_inset w) (w_fi w) (w_cff w) (w_x w) (w_baseline w) b.

  Definition zero_item : FlexItem T :=
    mkItem zero zero zero zero zero None zero zero zero zero false false zero false zero zero zero zero.
  Definition zero_cross : Cross T := mkCross zero zero zero zero zero zero zero.

  (* generate_anonymous_flex_items: the closure of `.map(..)` *)
  Definition mk_witem (k : Constants T) (align_items : FAlign) (index : nat) (st : FStyle T) : WItem :=
    let ci := child_info k (to_child st) in
    let inset := mkRect (maybe_resolve_lpa (r_left (fs_inset st)) (width (k_inner k)))
                        (maybe_resolve_lpa (r_right (fs_inset st)) (width (k_inner k)))
                        (maybe_resolve_lpa (r_top (fs_inset st)) (height (k_inner k)))
                        (maybe_resolve_lpa (r_bottom (fs_inset st)) (height (k_inner k))) in
    mkW index st ci (falign_is_baseline (opt_unwrap_or (fs_align_self st) align_items)) inset zero_item zero
        (mkCross zero zero zero zero (r_cross_start (k_row k) (ci_margin ci)) (r_cross_end (k_row k) (ci_margin ci)) zero) zero false.

  (* the items, through the pipeline translated from the source; the child handle is the style itself *)
  Definition flex_items (k : Constants T) (align_items : FAlign) (children : list (FStyle T)) : list WItem :=
    flex_generate_items (fun st => st) f_position f_bgm (fun index _ st => mk_witem k align_items index st) children.

  (* the children of the absolute pass (`continue` unless box-generating and position:absolute) and of the hidden pass *)
  Definition abs_children (children : list (FStyle T)) : list (nat * FStyle T) :=
    filter (fun c => negb (s_hidden f_bgm (snd c) || negb (s_absolute f_position (snd c)))) (g_enumerate children).
  Definition hidden_flags (children : list (FStyle T)) : list bool := map (s_hidden f_bgm) children.

  (* ------------------------------------------------------------------------------------------------ 9.2 (3) flex base sizes *)

  Definition need_basis_query (k : Constants T) (w : WItem) (e : BaseEnv T) : bool :=
    match opt_or (be_style_basis e) (s_main (k_row k) (ci_size (w_ci w))) with Some _ => false | None => true end.

  Definition base_asks (k : Constants T) (available_space : Size (AvailableSpace T)) (w : WItem) : list (FIn T) :=
    let row := k_row k in
    let e := base_env k available_space (to_child (w_style w)) (w_ci w) in
    let main_avail := if avail_is_min_content (s_main row available_space) then MinContent else MaxContent in
    let basis_in := mkFIn Engine.ComputeSize ContentSize (row_axis row) (be_known e) (be_parent e)
                          (s_of_mc row main_avail (be_cross_avail e)) line_FALSE in
    let min_in := mkFIn Engine.ComputeSize ContentSize (row_axis row) (be_known e) (be_parent e)
                        (s_with_cross row (mkSize MinContent MinContent) (be_cross_avail e)) line_FALSE in
    (if need_basis_query k w e then [basis_in] else []) ++ [min_in].

  (* the rest of the loop body of determine_flex_base_size, given the measured sizes *)
  Definition base_finish (k : Constants T) (w : WItem) (e : BaseEnv T) (measured_basis min_content_main_size : T) : FlexItem T :=
    let row := k_row k in
    let ci := w_ci w in
    let st := w_style w in
    let flex_basis :=
      match opt_or (be_style_basis e) (s_main row (ci_size ci)) with Some fb => fb | None => measured_basis end in
    let padding_border_sum := main_axis_sum row (ci_padding ci) + main_axis_sum row (ci_border ci) in
    let flex_basis := fmax flex_basis padding_border_sum in
    let inner_flex_basis := flex_basis - main_axis_sum row (ci_padding ci) - main_axis_sum row (ci_border ci) in
    let padding_border_axes_sums := sum_axes (rect_add (ci_padding ci) (ci_border ci)) in
    let ov := overflow (fs_core st) in
    let style_min_main_size :=
      s_main row (size_or (ci_min ci) (mkSize (automatic_min_of_overflow (px ov)) (automatic_min_of_overflow (py ov)))) in
    let clamped_min_content_size :=
      maybe_min_fo (maybe_min_fo min_content_main_size (s_main row (ci_size ci))) (s_main row (ci_max ci)) in
    let resolved_minimum := opt_unwrap_or style_min_main_size (fmax clamped_min_content_size (s_main row padding_border_axes_sums)) in
    let hypothetical_inner_min_main := fmax resolved_minimum (s_main row padding_border_axes_sums) in
    let hypothetical_inner_size := maybe_clamp_fo flex_basis (Some hypothetical_inner_min_main) (s_main row (ci_max ci)) in
    let hypothetical_outer_size := hypothetical_inner_size + main_axis_sum row (ci_margin ci) in
    let inset_main :=
      opt_unwrap_or (opt_or (r_main_start row (w_inset w)) (option_map neg (r_main_end row (w_inset w)))) zero in
    mkItem flex_basis inner_flex_basis hypothetical_inner_size hypothetical_outer_size resolved_minimum (s_main row (ci_max ci))
           (fs_grow st) (fs_shrink st)
           (r_main_start row (ci_margin ci)) (r_main_end row (ci_margin ci))
           (r_main_start row (ci_margin_auto ci)) (r_main_end row (ci_margin_auto ci))
           inset_main false zero zero zero zero.

  Definition ans_main (row : bool) (a : Ans) : T := s_main row (fst a).
  Definition ans_cross (row : bool) (a : Ans) : T := s_cross row (fst a).

  Definition base_upd (k : Constants T) (available_space : Size (AvailableSpace T)) (w : WItem) (answers : list Ans) : WItem :=
    let row := k_row k in
    let e := base_env k available_space (to_child (w_style w)) (w_ci w) in
    match answers with
    | [a_min] => set_fi w (base_finish k w e zero (ans_main row a_min))
    | a_basis :: a_min :: _ => set_fi w (base_finish k w e (ans_main row a_basis) (ans_main row a_min))
    | [] => w
    end.

  (* ------------------------------------------------------------------------------------------------ 9.3 container main size *)

  (* `.max_by(|a, b| a.total_cmp(b)).unwrap_or(0.0)`: the last maximal element *)
  Definition max_by_gt (l : list T) : T :=
    match l with
    | [] => zero
    | x :: r => fold_left (fun acc y => if gtb acc y then acc else y) r x
    end.

  (* the closure shared by the Definite and the wrapping MinContent branch *)
  Definition longest_line_length (k : Constants T) (lines : list (list WItem)) : T :=
    let row := k_row k in
    max_by_gt
      (map (fun ln =>
              let line_main_axis_gap := sum_axis_gaps (s_main row (k_gap k)) (zlen ln) in
              let total_target_size :=
                fsum (map (fun w =>
                             let ci := w_ci w in
                             let padding_border_sum := main_axis_sum row (rect_add (ci_padding ci) (ci_border ci)) in
                             fmax (maybe_max_fo (fi_basis (w_fi w)) (s_main row (ci_min ci)) + main_axis_sum row (ci_margin ci))
                                  padding_border_sum) ln) in
              total_target_size + line_main_axis_gap) lines).

  Definition opt_filter (o : option T) (b : bool) : option T := if b then o else None.
  Definition item_is_scroll_container (w : WItem) : bool :=
    let ov := overflow (fs_core (w_style w)) in is_scroll_container (px ov) || is_scroll_container (py ov).

  Record Intrinsic := mkIntr { in_min : T; in_max : T; in_pref : option T }.
  Definition intrinsic_bounds (k : Constants T) (w : WItem) : Intrinsic :=
    let row := k_row k in
    let ci := w_ci w in
    let it := w_fi w in
    let style_min := s_main row (ci_min ci) in
    let style_preferred := s_main row (ci_size ci) in
    let style_max := s_main row (ci_max ci) in
    let clamping_basis := maybe_max_oo (Some (fi_basis it)) style_preferred in
    let flex_basis_min := opt_filter clamping_basis (fi_shrink it =? zero) in
    let flex_basis_max := opt_filter clamping_basis (fi_grow it =? zero) in
    let min_main_size :=
      fmax (opt_unwrap_or (opt_or (maybe_max_oo style_min flex_basis_min) flex_basis_min) (fi_min it)) (fi_min it) in
    let max_main_size := opt_unwrap_or (opt_or (maybe_min_oo style_max flex_basis_max) flex_basis_max) infinity in
    mkIntr min_main_size max_main_size style_preferred.

  (* which arm of `match (min_main_size, style_preferred, max_main_size)`: Some = no measurement needed *)
  Definition intrinsic_shortcut (k : Constants T) (w : WItem) : option T :=
    let row := k_row k in
    let b := intrinsic_bounds k w in
    let mn := in_min b in let mx := in_max b in
    let msum := main_axis_sum row (ci_margin (w_ci w)) in
    match in_pref b with
    | Some pref =>
        if (mx <=? mn) || (mx <=? pref) then Some (fmax (fmin pref mx) mn + msum)
        else if item_is_scroll_container w then Some (fi_basis (w_fi w) + msum) else None
    | None =>
        if mx <=? mn then Some (mn + msum)
        else if item_is_scroll_container w then Some (fi_basis (w_fi w) + msum) else None
    end.

  Definition intrinsic_asks (k : Constants T) (available_space : Size (AvailableSpace T)) (w : WItem) : list (FIn T) :=
    let row := k_row k in
    let ci := w_ci w in
    match intrinsic_shortcut k w with
    | Some _ => []
    | None =>
        let cross_axis_parent_size := s_cross row (k_inner k) in
        let cross_axis_margin_sum := cross_axis_sum row (k_margin k) in
        let child_min_cross := maybe_add_of (s_cross row (ci_min ci)) cross_axis_margin_sum in
        let child_max_cross := maybe_add_of (s_cross row (ci_max ci)) cross_axis_margin_sum in
        let cross_axis_available_space :=
          maybe_clamp_ao (avail_map_definite_value (s_cross row available_space) (fun val => opt_unwrap_or cross_axis_parent_size val))
                         child_min_cross child_max_cross in
        let child_available_space := s_with_cross row available_space cross_axis_available_space in
        let ckd := s_with_main row (ci_size ci) None in
        let ckd :=
          if align_self_eqb (ci_align ci) AS_Stretch && match s_cross row ckd with None => true | Some _ => false end
          then s_with_cross row ckd (maybe_sub_of (avail_into_option cross_axis_available_space) (cross_axis_sum row (ci_margin ci)))
          else ckd in
        [mkFIn Engine.ComputeSize InherentSize (row_axis row) ckd (k_inner k) child_available_space line_FALSE]
    end.

  Definition intrinsic_upd (k : Constants T) (w : WItem) (answers : list Ans) : WItem :=
    let row := k_row k in
    let ci := w_ci w in
    let it := w_fi w in
    let main_content_box_inset := main_axis_sum row (k_inset k) in
    let content_contribution :=
      match intrinsic_shortcut k w, answers with
      | Some c, _ => c
      | None, a :: _ =>
          let content_main_size := ans_main row a + main_axis_sum row (ci_margin ci) in
          let style_min := s_main row (ci_min ci) in
          let style_max := s_main row (ci_max ci) in
          if row then fmax (maybe_clamp_fo content_main_size style_min style_max) main_content_box_inset
          else fmax (maybe_clamp_fo (fmax content_main_size (fi_basis it)) style_min style_max) main_content_box_inset
      | None, [] => zero
      end in
    set_cff w (content_flex_fraction content_contribution (fi_basis it) (fi_inner_basis it) (fi_grow it) (fi_shrink it)).

  (* the per-line sums of the min/max-content branch, after the fractions are known *)
  Definition intrinsic_main_size (k : Constants T) (lines : list (list WItem)) : T :=
    let row := k_row k in
    fold_left
      (fun main_size ln =>
         let item_main_size_sum :=
           fsum (map (fun w => let it := w_fi w in
                               fi_basis it + flex_contribution (fi_inner_basis it) (fi_grow it) (fi_shrink it) (w_cff w)) ln) in
         let gap_sum := sum_axis_gaps (s_main row (k_gap k)) (zlen ln) in
         fmax main_size (item_main_size_sum + gap_sum))
      lines zero.

  (* which branch of `match available_space.main(dir)` *)
  Inductive MainBranch := MB_Definite (a : T) | MB_WrapMinContent | MB_Intrinsic.
  Definition main_branch (k : Constants T) (available_space : Size (AvailableSpace T)) : MainBranch :=
    match s_main (k_row k) available_space with
    | Definite a => MB_Definite a
    | MinContent => if k_wrap k then MB_WrapMinContent else MB_Intrinsic
    | MaxContent => MB_Intrinsic
    end.

  (* the tail of determine_container_main_size: (outer, inner) main size from the unclamped outer size *)
  Definition finish_main_size (k : Constants T) (gutter : Point T) (outer_main_size : T) : T * T :=
    let row := k_row k in
    let main_content_box_inset := main_axis_sum row (k_inset k) in
    let outer_main_size :=
      fmax (maybe_clamp_fo outer_main_size (s_main row (k_min k)) (s_main row (k_max k))) (main_content_box_inset - p_main row gutter) in
    (outer_main_size, fmax (outer_main_size - main_content_box_inset) zero).

  (* ------------------------------------------------------------------------------------------------ 9.7 per line *)

  Definition resolve_line (k : Constants T) (ln : list WItem) : list WItem :=
    match resolve_flexible_lengths (map w_fi ln) (s_main (k_row k) (k_gap k)) (s_main (k_row k) (k_inner k)) with
    | Some its => zip_total set_fi ln its
    | None => ln
    end.

  (* ------------------------------------------------------------------------------------------------ 9.4 (7) hypothetical cross size *)

  Definition child_cross_of (k : Constants T) (w : WItem) : option T :=
    let row := k_row k in
    let ci := w_ci w in
    let padding_border_sum := cross_axis_sum row (rect_add (ci_padding ci) (ci_border ci)) in
    maybe_max_of (maybe_clamp_oo (s_cross row (ci_size ci)) (s_cross row (ci_min ci)) (s_cross row (ci_max ci))) padding_border_sum.

  Definition hyp_cross_asks (k : Constants T) (available_space : Size (AvailableSpace T)) (container_main : T) (w : WItem) : list (FIn T) :=
    let row := k_row k in
    let ci := w_ci w in
    let padding_border_sum := cross_axis_sum row (rect_add (ci_padding ci) (ci_border ci)) in
    match child_cross_of k w with
    | Some _ => []
    | None =>
        let child_available_cross :=
          maybe_max_af (maybe_clamp_ao (s_cross row available_space) (s_cross row (ci_min ci)) (s_cross row (ci_max ci))) padding_border_sum in
        [mkFIn Engine.ComputeSize ContentSize (cross_axis row) (s_of_mc row (Some (fi_target (w_fi w))) None) (k_inner k)
               (s_of_mc row (Definite container_main) child_available_cross) line_FALSE]
    end.

  Definition set_hyp_cross (w : WItem) (inner outer : T) : WItem :=
    let x := w_x w in
    set_x w (mkCross inner outer (x_target x) (x_outer_target x) (x_margin_start x) (x_margin_end x) (x_offset x)).

  Definition hyp_cross_upd (k : Constants T) (w : WItem) (answers : list Ans) : WItem :=
    let row := k_row k in
    let ci := w_ci w in
    let padding_border_sum := cross_axis_sum row (rect_add (ci_padding ci) (ci_border ci)) in
    let child_inner_cross :=
      match child_cross_of k w, answers with
      | Some v, _ => v
      | None, a :: _ => fmax (maybe_clamp_fo (ans_cross row a) (s_cross row (ci_min ci)) (s_cross row (ci_max ci))) padding_border_sum
      | None, [] => zero
      end in
    set_hyp_cross w child_inner_cross (child_inner_cross + cross_axis_sum row (ci_margin ci)).

  (* ------------------------------------------------------------------------------------------------ baselines *)

  Definition count_baseline (ln : list WItem) : nat := length (filter w_baseline_align ln).

  (* calculate_children_base_lines: which items are laid out *)
  Definition mark_baseline_line (k : Constants T) (ln : list WItem) : list WItem :=
    let many := k_row k && Nat.ltb 1 (count_baseline ln) in
    map (fun w => set_ask_baseline w (many && w_baseline_align w)) ln.

  Definition baseline_asks (k : Constants T) (known_dimensions : Size (option T)) (available_space : Size (AvailableSpace T))
             (container_main : T) (w : WItem) : list (FIn T) :=
    if w_ask_baseline w then
      (* is_row holds here *)
      [mkFIn Engine.PerformLayout ContentSize AxBoth
             (mkSize (Some (fi_target (w_fi w))) (Some (x_hyp_inner (w_x w)))) (k_inner k)
             (mkSize (Definite container_main) (avail_maybe_set (height available_space) (height known_dimensions))) line_FALSE]
    else [].

  Definition baseline_upd (w : WItem) (answers : list Ans) : WItem :=
    match answers with
    | a :: _ => set_baseline w (opt_unwrap_or (snd a) (height (fst a)) + r_top (ci_margin (w_ci w)))
    | [] => w
    end.

  (* ------------------------------------------------------------------------------------------------ 9.4 (8) line cross sizes *)

  Definition max_baseline_of (ln : list WItem) : T := fold_left (fun acc w => fmax acc (w_baseline w)) ln zero.

  Definition line_cross_contributions (k : Constants T) (ln : list WItem) : list T :=
    let row := k_row k in
    let max_baseline := max_baseline_of ln in
    map (fun w =>
           if w_baseline_align w && negb (r_cross_start row (ci_margin_auto (w_ci w))) && negb (r_cross_end row (ci_margin_auto (w_ci w)))
           then max_baseline - w_baseline w + x_hyp_outer (w_x w)
           else x_hyp_outer (w_x w)) ln.

  (* calculate_cross_size *)
  Definition calc_cross_sizes (k : Constants T) (node_size : Size (option T)) (lines : list (list WItem)) : list T :=
    let row := k_row k in
    let cross_axis_padding_border := cross_axis_sum row (k_inset k) in
    let cross_min_size := s_cross row (k_min k) in
    let cross_max_size := s_cross row (k_max k) in
    if negb (k_wrap k) && match s_cross row node_size with Some _ => true | None => false end then
      let v := opt_unwrap_or
                 (maybe_max_of (maybe_sub_of (maybe_clamp_oo (s_cross row node_size) cross_min_size cross_max_size)
                                             cross_axis_padding_border) zero) zero in
      match lines with [] => [] | _ :: r => v :: map (fun _ => zero) r end
    else
      let sizes := map (fun ln => line_cross_size (line_cross_contributions k ln)) lines in
      if negb (k_wrap k) then
        match sizes with
        | [] => []
        | s0 :: r => maybe_clamp_fo s0 (maybe_sub_of cross_min_size cross_axis_padding_border)
                                       (maybe_sub_of cross_max_size cross_axis_padding_border) :: r
        end
      else sizes.

  (* ------------------------------------------------------------------------------------------------ 9.4 (11), 9.6 (13, 14) *)

  Definition work_of (w : WItem) : Work T := mkWork (to_child (w_style w)) (w_ci w) (w_fi w).

  (* determine_used_cross_size for one item of a line with the given cross size *)
  Definition used_cross_upd (k : Constants T) (line_cross : T) (w : WItem) : WItem :=
    let row := k_row k in
    let x := w_x w in
    let target := used_cross_size k line_cross (work_of w) (x_hyp_inner x) in
    set_x w (mkCross (x_hyp_inner x) (x_hyp_outer x) target (target + cross_axis_sum row (ci_margin (w_ci w)))
                     (x_margin_start x) (x_margin_end x) (x_offset x)).

  (* align_flex_items_along_cross_axis *)
  Definition align_item_cross_b (k : Constants T) (w : WItem) (free_space max_baseline : T) : T :=
    if w_baseline_align w then
      if k_row k then max_baseline - w_baseline w
      else if k_wrap_reverse k then free_space else zero
    else align_item_cross k (ci_align (w_ci w)) free_space.

  (* resolve_cross_axis_auto_margins for one item *)
  Definition cross_margins_upd (k : Constants T) (line_cross max_baseline : T) (w : WItem) : WItem :=
    let row := k_row k in
    let ci := w_ci w in
    let x := w_x w in
    let free_space := line_cross - x_outer_target x in
    let sa := r_cross_start row (ci_margin_auto ci) in
    let ea := r_cross_end row (ci_margin_auto ci) in
    let mk ms me off := set_x w (mkCross (x_hyp_inner x) (x_hyp_outer x) (x_target x) (x_outer_target x) ms me off) in
    if sa && ea then mk (free_space / two) (free_space / two) (x_offset x)
    else if sa then mk free_space (x_margin_end x) (x_offset x)
    else if ea then mk (x_margin_start x) free_space (x_offset x)
    else mk (x_margin_start x) (x_margin_end x) (align_item_cross_b k w free_space max_baseline).

  (* distribute_remaining_free_space for one line *)
  Definition distribute_line (k : Constants T) (inner_main : T) (ln : list WItem) : list WItem :=
    zip_total set_fi ln
      (distribute_remaining_free_space (map w_fi ln) (s_main (k_row k) (k_gap k)) inner_main (k_justify k) (k_reverse k)).

  (* determine_container_cross_size: (outer, inner, total_line_cross_size) *)
  Definition container_cross_size (k : Constants T) (gutter : Point T) (node_size : Size (option T)) (cross_sizes : list T) : T * T * T :=
    let row := k_row k in
    let total_cross_axis_gap := sum_axis_gaps (s_cross row (k_gap k)) (zlen cross_sizes) in
    let total_line_cross_size := fsum cross_sizes in
    let padding_border_sum := cross_axis_sum row (k_inset k) in
    let cross_scrollbar_gutter := p_cross row gutter in
    let outer_container_size :=
      fmax (maybe_clamp_fo (opt_unwrap_or (s_cross row node_size) (total_line_cross_size + total_cross_axis_gap + padding_border_sum))
                           (s_cross row (k_min k)) (s_cross row (k_max k)))
           (padding_border_sum - cross_scrollbar_gutter) in
    let inner_container_size := fmax (outer_container_size - padding_border_sum) zero in
    (outer_container_size, inner_container_size, total_line_cross_size).

  (* ------------------------------------------------------------------------------------------------ final layout pass *)

  (* one step of the walk: the item, the line's offset_cross, total_offset_cross when its line is laid out, first item of its line *)
  Record WalkItem := mkWalk { wk_item : WItem; wk_line_offset : T; wk_total_cross : T; wk_first : bool; wk_first_line : bool }.
  Definition wk_node (x : WalkItem) : nat := w_node (wk_item x).

  Definition maybe_rev {A} (b : bool) (l : list A) : list A := if b then rev l else l.

  Definition walk_line (k : Constants T) (first_line : bool) (line_offset total_cross : T) (ln : list WItem) : list WalkItem :=
    match maybe_rev (k_reverse k) ln with
    | [] => []
    | w :: r => mkWalk w line_offset total_cross true first_line :: map (fun w' => mkWalk w' line_offset total_cross false first_line) r
    end.

  Fixpoint walk_lines_from (k : Constants T) (i : nat) (lines : list (list WItem)) (offsets starts : list T) : list (list WalkItem) :=
    match lines with
    | [] => []
    | ln :: r => walk_line k (Nat.eqb i 0) (nth_or offsets i) (nth_or starts i) ln :: walk_lines_from k (S i) r offsets starts
    end.

  (* final_layout_pass: the items in the order in which calculate_flex_item is called *)
  Definition final_walk (k : Constants T) (lines : list (list WItem)) (offsets cross_sizes : list T) : list WalkItem :=
    let row := k_row k in
    let walk := combine offsets cross_sizes in
    let starts :=
      if k_wrap_reverse k then rev (line_starts (r_cross_start row (k_inset k)) (rev walk))
      else line_starts (r_cross_start row (k_inset k)) walk in
    concat (maybe_rev (k_wrap_reverse k) (walk_lines_from k 0 lines offsets starts)).

  (* the part of the state the in-flow geometry depends on, and the content size accumulator *)
  Record FinalCore := mkCore {
    fc_total_offset_main : T;
    fc_baselines : list (nat * bool * T);     (* items of flex_lines[0]: node, (is_column || align_self == Baseline), offset_vertical + baseline *)
  }.
  Definition FinalState : Type := (FinalCore * Size T)%type.

  Definition final_input (k : Constants T) (container_size : Size T) (x : WalkItem) : FIn T :=
    let w := wk_item x in
    mkFIn Engine.PerformLayout ContentSize AxBoth
          (s_of_mc (k_row k) (Some (fi_target (w_fi w))) (Some (x_target (w_x w)))) (k_inner k)
          (size_map (@Definite T) container_size) line_FALSE.

  Definition item_margin (k : Constants T) (w : WItem) : Rect T :=
    let it := w_fi w in let x := w_x w in
    if k_row k then mkRect (fi_margin_start it) (fi_margin_end it) (x_margin_start x) (x_margin_end x)
    else mkRect (x_margin_start x) (x_margin_end x) (fi_margin_start it) (fi_margin_end it).

  Definition item_scrollbar_size (st : FStyle T) : Size T :=
    let ov := overflow (fs_core st) in
    let sw := scrollbar_width (fs_core st) in
    mkSize (if is_scroll (py ov) then sw else zero) (if is_scroll (px ov) then sw else zero).

  (* calculate_flex_item, everything except content_size: (location, new core) *)
  Definition final_place (k : Constants T) (x : WalkItem) (c : FinalCore) (a : Ans) : Point T * FinalCore :=
    let row := k_row k in
    let w := wk_item x in
    let it := w_fi w in
    let cx := w_x w in
    let size := fst a in
    let total_offset_main := if wk_first x then r_main_start row (k_inset k) else fc_total_offset_main c in
    let total_offset_cross := wk_total_cross x in
    let offset_main := total_offset_main + fi_offset it + fi_margin_start it + fi_inset it in
    let inset_cross :=
      opt_unwrap_or (opt_or (r_cross_start row (w_inset w)) (option_map neg (r_cross_end row (w_inset w)))) zero in
    let offset_cross := total_offset_cross + x_offset cx + wk_line_offset x + x_margin_start cx + inset_cross in
    let inner_baseline := opt_unwrap_or (snd a) (height size) in
    let baseline :=
      if row then total_offset_cross + x_offset cx + x_margin_start cx + inner_baseline
      else total_offset_main + fi_offset it + fi_margin_start it + inner_baseline in
    let location := if row then mkPoint offset_main offset_cross else mkPoint offset_cross offset_main in
    let offset_vertical := if row then x_offset cx else fi_offset it in
    let baselines :=
      if wk_first_line x then fc_baselines c ++ [(w_node w, negb row || w_baseline_align w, offset_vertical + baseline)]
      else fc_baselines c in
    (location, mkCore (total_offset_main + (fi_offset it + margin_sum it + s_main row size)) baselines).

  Definition final_layout (k : Constants T) (x : WalkItem) (st : FinalState) (o : Out) : FLay T :=
    let w := wk_item x in
    mkFLay (Z.of_nat (w_node w)) (fst (final_place k x (fst st) (ans_of o))) (out_size o) (out_content_size o)
           (item_scrollbar_size (w_style w)) (ci_border (w_ci w)) (ci_padding (w_ci w)) (item_margin k w).

  (* compute_content_size_contribution *)
  Definition content_size_contribution (location : Point T) (size content_size : Size T) (ov : Point Overflow) : Size T :=
    let w := match px ov with Visible => fmax (width size) (width content_size) | _ => width size end in
    let h := match py ov with Visible => fmax (height size) (height content_size) | _ => height size end in
    if gtb w zero && gtb h zero then mkSize (px location + w) (py location + h) else size_ZERO.
  Definition size_f32_max (a b : Size T) : Size T := mkSize (fmax (width a) (width b)) (fmax (height a) (height b)).

  Definition final_step (k : Constants T) (x : WalkItem) (st : FinalState) (o : Out) : FinalState :=
    let pl := final_place k x (fst st) (ans_of o) in
    (snd pl,
     size_f32_max (snd st) (content_size_contribution (fst pl) (out_size o) (out_content_size o) (overflow (fs_core (w_style (wk_item x)))))).

  (* the tail of final_layout_pass *)
  Definition inflow_content_size (k : Constants T) (gutter : Point T) (content : Size T) : Size T :=
    mkSize (width content + (r_right (k_inset k) - r_right (k_border k) - px gutter))
           (height content + (r_bottom (k_inset k) - r_bottom (k_border k) - py gutter)).

  (* 8.5 flex container baselines *)
  (* `.find(..)` / `.next()` walk flex_lines[0].items in DOCUMENT order, whatever the order of the final pass was *)
  Definition pick_min_node (l : list (nat * bool * T)) : option (nat * bool * T) :=
    fold_left (fun acc e => match acc with
                            | None => Some e
                            | Some a => if Nat.ltb (fst (fst e)) (fst (fst a)) then Some e else acc
                            end) l None.
  Definition first_vertical_baseline (c : FinalCore) : option T :=
    match pick_min_node (filter (fun e => snd (fst e)) (fc_baselines c)) with
    | Some e => Some (snd e)
    | None => option_map snd (pick_min_node (fc_baselines c))
    end.

  (* ------------------------------------------------------------------------------------------------ absolute and hidden pass *)

  Definition abs_step (c : AbsPosBase.FlexConstants T) (x : nat * FStyle T) (content : Size T) (o : Out) : Size T :=
    match abs_contribution (snd x) (abs_layout c (snd x) (fst x) (out_size o) (out_content_size o)) with
    | Some v => size_f32_max content v
    | None => content
    end.

  Definition hidden_child_input : FIn T :=
    mkFIn Engine.PerformLayout InherentSize AxBoth size_NONE size_NONE (mkSize MaxContent MaxContent) line_FALSE.

  Fixpoint hidden_pass (flags : list bool) (order : nat) (k : Alg) : Alg :=
    match flags with
    | [] => k
    | h :: rest =>
        if h then Query order hidden_child_input (fun _ => SetLayout order (f_with_order order) (hidden_pass rest (S order) k))
        else hidden_pass rest (S order) k
    end.

  (* LayoutOutput::from_outer_size / from_sizes_and_baselines *)
  Definition out_of_sizes (size content : Size T) (baseline_y : option T) : Out :=
    mkOutput size content (mkPoint None baseline_y) margin_set_ZERO margin_set_ZERO false.
  Definition from_outer_size (size : Size T) : Out := out_of_sizes size size_ZERO None.

  (* ------------------------------------------------------------------------------------------------ compute_preliminary *)

  Definition is_compute_size (m : Engine.RunMode) : bool := match m with Engine.ComputeSize => true | _ => false end.

  (* steps 7 .. end, once the container's main size is known; `ws` in document order, `lens` the line lengths *)
  Definition flex_after_main_size (s : FStyle T) (absl : list (nat * FStyle T)) (flags : list bool) (inp : FIn T) (k : Constants T)
             (available_space : Size (AvailableSpace T)) (lens : list nat) (outer_main inner_main : T) (ws : list WItem) : Alg :=
    let row := k_row k in
    let known_dimensions := qi_known inp in
    let gutter := scrollbar_gutter s in
    (* 6 *)
    let ws := per_line lens (fun _ => resolve_line k) ws in
    (* 7 *)
    qmap w_node (hyp_cross_asks k available_space outer_main) (hyp_cross_upd k) ws (fun ws =>
    (* calculate_children_base_lines *)
    let ws := per_line lens (fun _ => mark_baseline_line k) ws in
    qmap w_node (baseline_asks k known_dimensions available_space outer_main) baseline_upd ws (fun ws =>
    (* 8, 9 *)
    let cross_sizes := calc_cross_sizes k known_dimensions (regroup lens ws) in
    let cross_sizes := handle_align_content_stretch k known_dimensions cross_sizes in
    (* 11 *)
    let ws := per_line lens (fun i => map (used_cross_upd k (nth_or cross_sizes i))) ws in
    (* 12 *)
    let ws := per_line lens (fun _ => distribute_line k inner_main) ws in
    (* 13, 14 *)
    let ws := per_line lens (fun i ln => map (cross_margins_upd k (nth_or cross_sizes i) (max_baseline_of ln)) ln) ws in
    (* 15 *)
    let '(outer_cross, inner_cross, total_line_cross_size) := container_cross_size k gutter known_dimensions cross_sizes in
    let container_size := s_of_mc row outer_main outer_cross in
    if is_compute_size (qi_mode inp) then Ret (from_outer_size container_size)
    else
      (* 16 *)
      let lines := regroup lens ws in
      let offsets := align_flex_lines k inner_cross total_line_cross_size (zlen lines) (map (fun _ => tt) lines) in
      (* final_layout_pass *)
      qsloop wk_node (fun x _ => final_input k container_size x) (final_layout k) (final_step k)
             (final_walk k lines offsets cross_sizes) (mkCore zero [], size_ZERO) (fun fin =>
      let inflow := inflow_content_size k gutter (snd fin) in
      (* perform_absolute_layout_on_absolute_children *)
      let ac := abs_constants container_size (k_border k) (k_inset k) gutter row (k_reverse k) (k_wrap_reverse k) (k_justify k)
                              (container_align_items s) in
      qsloop fst (fun x _ => abs_query_input ac (k_inner k) (snd x))
             (fun x _ o => abs_layout ac (snd x) (fst x) (out_size o) (out_content_size o)) (abs_step ac)
             absl size_ZERO (fun abs_content =>
      (* hidden layout *)
      hidden_pass flags 0
        (Ret (out_of_sizes container_size (size_f32_max inflow abs_content) (first_vertical_baseline (fst fin)))))))).

  (* compute_preliminary, given the three things it derives from the child-style list: the items (generate_anonymous_flex_items), the
     box-generating absolute children with their indices (the loop of the absolute pass), the display:none flags (the hidden loop) *)
  Definition flex_core (s : FStyle T) (inp : FIn T) (k : Constants T) (items : list WItem) (absl : list (nat * FStyle T))
             (flags : list bool) : Alg :=
    let known_dimensions := qi_known inp in
    let row := k_row k in
    let gutter := scrollbar_gutter s in
    (* 2 *)
    let available_space := determine_available_space known_dimensions (qi_avail inp) k in
    (* 3 *)
    qmap w_node (base_asks k available_space) (base_upd k available_space) items (fun ws =>
    (* 5 *)
    let lens := map (@length WItem)
                    (collect_flex_lines (fun w => fi_hyp_outer (w_fi w)) (k_wrap k) (s_main row (k_max k)) (s_main row (k_min k))
                                        (s_main row available_space) (s_main row (k_gap k)) ws) in
    match s_main row (k_inner k) with
    | Some inner_main_size =>
        let outer_main_size := inner_main_size + main_axis_sum row (k_inset k) in
        flex_after_main_size s absl flags inp k available_space lens outer_main_size inner_main_size ws
    | None =>
        let main_content_box_inset := main_axis_sum row (k_inset k) in
        let continue_with (ws : list WItem) (outer_unclamped : T) : Alg :=
          let '(outer_main, inner_main) := finish_main_size k gutter outer_unclamped in
          flex_after_main_size s absl flags inp (with_main_size s k outer_main inner_main) available_space lens outer_main inner_main ws in
        match main_branch k available_space with
        | MB_Definite a =>
            let lines := regroup lens ws in
            let size := longest_line_length k lines + main_content_box_inset in
            continue_with ws (if Nat.ltb 1 (length lines) then fmax size a else size)
        | MB_WrapMinContent =>
            continue_with ws (longest_line_length k (regroup lens ws) + main_content_box_inset)
        | MB_Intrinsic =>
            qmap w_node (intrinsic_asks k available_space) (intrinsic_upd k) ws (fun ws =>
            continue_with ws (intrinsic_main_size k (regroup lens ws) + main_content_box_inset))
        end
    end).

  Definition flex_preliminary (s : FStyle T) (children : list (FStyle T)) (inp : FIn T) : Alg :=
    let k := flex_constants s (qi_known inp) (qi_parent inp) in
    (* 1 *)
    flex_core s inp k (flex_items k (container_align_items s) children) (abs_children children) (hidden_flags children).

  (* compute_flexbox_layout (l.164-223) *)
  Definition flex_alg (s : FStyle T) (children : list (FStyle T)) (inp : FIn T) : Alg :=
    let kd := styled_known_dimensions (to_cstyle s) (qi_known inp) (qi_parent inp) (qi_sizing inp) in
    match is_compute_size (qi_mode inp), width kd, height kd with
    | true, Some w, Some h => Ret (from_outer_size (mkSize w h))
    | _, _, _ =>
        flex_preliminary s children
          (mkFIn (qi_mode inp) (qi_sizing inp) (qi_axis inp) kd (qi_parent inp) (qi_avail inp) (qi_collapsible inp))
    end.
End FlexAlg.
