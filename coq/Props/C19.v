(* C19 -- a single leaf is sized per the box model.
   Statements only; the proofs are in Proofs/LeafAxis.v and Proofs/LeafProofs.v.  The definitions these statements are
   about: Model/Root.v `root_leaf` (compute_root_layout + dispatch for a childless node), Model/Leaf.v
   `compute_leaf_layout`, Model/LeafSpec.v `leaf_spec` (the declarative box model), over tables regenerated from
   src/util/math.rs, src/util/resolve.rs, src/style/available_space.rs, src/geometry.rs on every run (Gen/MathGen.v).
   Numbers: the exact instance XQ (rationals + infinities + NaN); `xeq` = equality up to Qeq.

   Domain of the numeric theorems: every number of the style and of the available space finite (`fin_style`,
   `fin_avail`), the measure function returns finite sizes on finite arguments (`fin_measure`), resolved padding and
   border not negative (`nonneg_padding_border`; CSS forbids negative padding/border).

   FINDING (see notes/C19.md): with an aspect ratio the code sets height := max(height, width / ratio) *after* clamping
   and regardless of a definite style / known height, so the property's "style size if definite" and "clamped by
   min/max" clauses fail there: C19_spec_refuted, C19_clamped_refuted, KnownDimsRespected_leaf_refuted.  The equality
   with leaf_spec and the clamping law are therefore proved for the class without aspect ratio (`_partial`). *)
From Coq Require Import QArith Bool List ZArith.
From TV Require Import Num.QNum Num.F32 Model.Common Model.Leaf Model.Root Model.LeafSpec Proofs.LeafAxis Proofs.LeafProofs Proofs.LeafF32.
From TV Require Import Gen.LeafGen Gen.RootGen Model.LeafGenRoot Proofs.LeafGenProofs Proofs.LeafGenSpec.
Import ListNotations.
Open Scope Q_scope.

(* ---- the box model: layout = leaf_spec, measure called exactly once without known dimensions and with the available
   content-box space.  Partial: proved for styles without aspect ratio (everything else -- all size/min/max kinds,
   percentages, padding, border, scroll gutters, both box-sizing modes, every display, block stretch fit, every kind of
   available space -- is covered); with an aspect ratio the statement is false (C19_spec_refuted). *)
Theorem C19_spec_partial : forall (st : Style XQ) (measure : MeasureFn XQ) (av : Size (AvailableSpace XQ)),
  fin_style st -> size_all fin_avail av -> fin_measure measure -> nonneg_padding_border st av ->
  display st <> DNone -> aspect_ratio st = None ->
  exists lay aa,
    root_leaf st measure av = Some (lay, [(size_NONE, aa)]) /\
    size_rel avail_xeq aa (leaf_spec_measure_avail st av) /\
    layout_xeq lay (leaf_spec st av (measure size_NONE aa)).
Proof. exact root_leaf_spec_noratio. Qed.

(* width:100; height:10; aspect-ratio:2 (flex root, no padding, no min/max): the definite style height is 10 and
   leaf_spec says 100x10, the model -- and the implementation -- lay it out 100x50 *)
Theorem C19_spec_refuted :
  exists (st : Style XQ) (measure : MeasureFn XQ) (av : Size (AvailableSpace XQ)),
  fin_style st /\ positive_ratio st /\ nonneg_padding_border st av /\ display st <> DNone /\ fin_measure measure /\
  height (sp_size st av) = Some (Fin 10) /\ sp_min st av = size_NONE /\ sp_max st av = size_NONE /\
  exists lay calls, root_leaf st measure av = Some (lay, calls) /\
    xeq (width (l_size lay)) (Fin 100) /\ xeq (height (l_size lay)) (Fin 50) /\
    xeq (height (leaf_spec_size st av (mkSize (Fin 0) (Fin 0)))) (Fin 10).
Proof. exists (w_both DFlex), measure_zero, max_content2. exact spec_ratio_witness. Qed.

(* ---- with an aspect ratio, where the property is explicit and the code agrees: a style size definite on exactly one
   axis (percentages resolved) is transferred to the other axis -- border-box, no min/max, style size not below
   padding + border *)
Theorem C19_ratio_transfer : forall (st : Style XQ) (measure : MeasureFn XQ) (av : Size (AvailableSpace XQ)) r lay calls,
  fin_style st -> size_all fin_avail av -> display st <> DNone ->
  aspect_ratio st = Some (Fin r) -> 0 < r -> box_sizing st = BorderBox ->
  min_size st = mkSize Auto Auto -> max_size st = mkSize Auto Auto ->
  root_leaf st measure av = Some (lay, calls) ->
  (forall w, width (size_maybe_resolve_dim (size st) (sp_basis av)) = Some (Fin w) ->
             height (size_maybe_resolve_dim (size st) (sp_basis av)) = None ->
             x_leb (width (sp_pb st av)) (Fin w) = true ->
             size_rel xeq (l_size lay) (mkSize (Fin w) (x_max (Fin (w / r)) (height (sp_pb st av))))) /\
  (forall h, width (size_maybe_resolve_dim (size st) (sp_basis av)) = None ->
             height (size_maybe_resolve_dim (size st) (sp_basis av)) = Some (Fin h) ->
             x_leb (width (sp_pb st av)) (Fin (h * r)) = true ->
             size_rel xeq (l_size lay) (mkSize (Fin (h * r)) (x_max (Fin h) (height (sp_pb st av))))).
Proof. exact root_ratio_transfer. Qed.

(* ---- never below padding + border, per axis: every box-generating style (aspect ratio included), every measure
   function (no finiteness assumption: NaN and infinite measurements included) *)
Theorem C19_floor : forall (st : Style XQ) (measure : MeasureFn XQ) (av : Size (AvailableSpace XQ)) lay calls,
  fin_style st -> size_all fin_avail av -> display st <> DNone ->
  root_leaf st measure av = Some (lay, calls) ->
  x_leb (width (sp_pb st av)) (width (l_size lay)) = true /\ x_leb (height (sp_pb st av)) (height (l_size lay)) = true.
Proof. exact root_floor. Qed.

(* the same for compute_leaf_layout with arbitrary inputs (both run modes, both sizing modes, any known dimensions) *)
Theorem C19_floor_leaf : forall (inputs : LayoutInput XQ) (st : Style XQ) (measure : MeasureFn XQ) out calls pbw pbh,
  compute_leaf_layout inputs st measure = Some (out, calls) ->
  sum_axes (le_padding_border (leaf_env inputs st)) = mkSize (Fin pbw) (Fin pbh) ->
  x_leb (Fin pbw) (width (out_size out)) = true /\ x_leb (Fin pbh) (height (out_size out)) = true.
Proof. exact leaf_floor. Qed.

(* the floor over binary32 (the arithmetic the implementation runs): an order-only fact, so no rounding analysis is
   involved; padding + border is the rounded sum the code computes, assumed not NaN.  (Flocq: the standard-library axioms
   of its real-number layer are reported for every statement that mentions F32.) *)
Theorem C19_floor_F32 : forall (st : Style f32) (measure : MeasureFn f32) (av : Size (AvailableSpace f32)) lay calls,
  display st <> DNone ->
  root_leaf st measure av = Some (lay, calls) ->
  let pb := sum_axes (rect_add (sp_padding st av) (sp_border st av)) in
  f_is_nan (width pb) = false -> f_is_nan (height pb) = false ->
  f_leb (width pb) (width (l_size lay)) = true /\ f_leb (height pb) (height (l_size lay)) = true.
Proof. exact root_floor_f32. Qed.

Theorem C19_floor_leaf_F32 : forall (inputs : LayoutInput f32) (st : Style f32) (measure : MeasureFn f32) out calls,
  compute_leaf_layout inputs st measure = Some (out, calls) ->
  f_is_nan (horizontal_axis_sum (le_padding_border (leaf_env inputs st))) = false ->
  f_is_nan (vertical_axis_sum (le_padding_border (leaf_env inputs st))) = false ->
  f_leb (horizontal_axis_sum (le_padding_border (leaf_env inputs st))) (width (out_size out)) = true /\
  f_leb (vertical_axis_sum (le_padding_border (leaf_env inputs st))) (height (out_size out)) = true.
Proof. exact leaf_floor_f32. Qed.

(* ---- min <= max -> padding+border <= max -> min <= size <= max, per axis.  Partial: without aspect ratio; with one
   it is false (C19_clamped_refuted). *)
Theorem C19_clamped_partial : forall (st : Style XQ) (av : Size (AvailableSpace XQ)),
  fin_style st -> size_all fin_avail av -> aspect_ratio st = None ->
  forall (measure : MeasureFn XQ) lay calls,
  fin_measure measure -> nonneg_padding_border st av -> display st <> DNone ->
  root_leaf st measure av = Some (lay, calls) ->
  (forall lo hi, width (sp_min st av) = Some lo -> width (sp_max st av) = Some hi ->
     x_leb lo hi = true -> x_leb (width (sp_pb st av)) hi = true ->
     x_leb lo (width (l_size lay)) = true /\ x_leb (width (l_size lay)) hi = true) /\
  (forall lo hi, height (sp_min st av) = Some lo -> height (sp_max st av) = Some hi ->
     x_leb lo hi = true -> x_leb (height (sp_pb st av)) hi = true ->
     x_leb lo (height (l_size lay)) = true /\ x_leb (height (l_size lay)) hi = true).
Proof. exact root_clamped. Qed.

(* width:100; max-height:20; aspect-ratio:2: no min-height, padding+border 0 <= 20, but the height is 50 *)
Theorem C19_clamped_refuted :
  exists (st : Style XQ) (measure : MeasureFn XQ) (av : Size (AvailableSpace XQ)),
  fin_style st /\ positive_ratio st /\ nonneg_padding_border st av /\ display st <> DNone /\ fin_measure measure /\
  height (sp_min st av) = None /\ height (sp_max st av) = Some (Fin 20) /\
  x_leb (height (sp_pb st av)) (Fin 20) = true /\
  exists lay calls, root_leaf st measure av = Some (lay, calls) /\
    x_leb (height (l_size lay)) (Fin 20) = false /\ xeq (height (l_size lay)) (Fin 50).
Proof. exists (w_maxh DFlex), measure_zero, max_content2. exact clamped_ratio_witness. Qed.

(* ... and that style gives 40x20 as a display:block root but 100x50 as a flex root *)
Theorem C19_ratio_display_dependence :
  exists l1 c1 l2 c2,
    root_leaf (w_maxh DBlock) measure_zero max_content2 = Some (l1, c1) /\
    root_leaf (w_maxh DFlex) measure_zero max_content2 = Some (l2, c2) /\
    size_rel xeq (l_size l1) (mkSize (Fin 40) (Fin 20)) /\ size_rel xeq (l_size l2) (mkSize (Fin 100) (Fin 50)).
Proof. exact display_dependence_witness. Qed.

(* ---- location (0,0), order 0: every style (display:none included) *)
Theorem C19_location : forall (st : Style XQ) (measure : MeasureFn XQ) (av : Size (AvailableSpace XQ)) lay calls,
  root_leaf st measure av = Some (lay, calls) -> l_location lay = mkPoint (Fin 0) (Fin 0) /\ l_order lay = 0%N.
Proof. exact root_location. Qed.

(* ---- the measure function: compute_leaf_layout with arbitrary inputs calls it at most once; not at all on the early
   return path; otherwise with known_dimensions = the inputs' (ComputeSize) or NONE (PerformLayout) and the available
   space `leaf_spec_avail` = per axis, where known | style size | available space is definite:
   clamp (known | style size | available - margin) - content_box_inset; min-/max-content passed through *)
Theorem C19_measure_args : forall (inputs : LayoutInput XQ) (st : Style XQ) (measure : MeasureFn XQ) out calls,
  compute_leaf_layout inputs st measure = Some (out, calls) ->
  (calls = [] /\ leaf_early inputs (leaf_env inputs st) = Some out) \/
  (leaf_early inputs (leaf_env inputs st) = None /\
   exists known, calls = [(known, leaf_spec_avail inputs st)] /\
     ((run_mode inputs = ComputeSize /\ known = known_dimensions inputs) \/
      (run_mode inputs = PerformLayout /\ known = size_NONE)) /\
     out = leaf_finish inputs (leaf_env inputs st) (measure known (leaf_spec_avail inputs st))).
Proof. exact leaf_measure_args. Qed.

(* the early return happens only in RunMode::ComputeSize with both dimensions known *)
Theorem C19_early_return : forall (inputs : LayoutInput XQ) (st : Style XQ) out,
  leaf_early inputs (leaf_env inputs st) = Some out ->
  run_mode inputs = ComputeSize /\ (exists w h, le_node_size (leaf_env inputs st) = mkSize (Some w) (Some h)).
Proof. exact leaf_early_only_compute_size. Qed.

(* a display:none root generates no box: never measured, size 0x0 *)
Theorem C19_display_none : forall (st : Style XQ) (measure : MeasureFn XQ) (av : Size (AvailableSpace XQ)),
  display st = DNone ->
  exists lay, root_leaf st measure av = Some (lay, []) /\ l_size lay = mkSize (Fin 0) (Fin 0).
Proof.
  intros st measure av D. eexists. split; [apply root_leaf_none; exact D | reflexivity].
Qed.

(* ---- interface lemma used by the container properties: with both dimensions known the leaf returns
   max(known, padding + border) per axis -- when no aspect ratio applies and the known size satisfies the node's own
   min/max; unconditionally in SizingMode::ContentSize *)
Theorem KnownDimsRespected_leaf : forall (inputs : LayoutInput XQ) (st : Style XQ) (measure : MeasureFn XQ) out calls kw kh pbw pbh,
  known_dimensions inputs = mkSize (Some (Fin kw)) (Some (Fin kh)) ->
  compute_leaf_layout inputs st measure = Some (out, calls) ->
  le_aspect_ratio (leaf_env inputs st) = None ->
  sum_axes (le_padding_border (leaf_env inputs st)) = mkSize (Fin pbw) (Fin pbh) -> 0 <= pbh ->
  within kw (width (le_node_min_size (leaf_env inputs st))) (width (le_node_max_size (leaf_env inputs st))) ->
  within kh (height (le_node_min_size (leaf_env inputs st))) (height (le_node_max_size (leaf_env inputs st))) ->
  xeq (width (out_size out)) (x_max (Fin kw) (Fin pbw)) /\ xeq (height (out_size out)) (x_max (Fin kh) (Fin pbh)).
Proof. exact known_dims_respected. Qed.

Theorem KnownDimsRespected_leaf_content_size : forall (inputs : LayoutInput XQ) (st : Style XQ) (measure : MeasureFn XQ) out calls kw kh pbw pbh,
  sizing_mode inputs = ContentSize ->
  known_dimensions inputs = mkSize (Some (Fin kw)) (Some (Fin kh)) ->
  compute_leaf_layout inputs st measure = Some (out, calls) ->
  sum_axes (le_padding_border (leaf_env inputs st)) = mkSize (Fin pbw) (Fin pbh) -> 0 <= pbh ->
  xeq (width (out_size out)) (x_max (Fin kw) (Fin pbw)) /\ xeq (height (out_size out)) (x_max (Fin kh) (Fin pbh)).
Proof. exact known_dims_respected_content_size. Qed.

(* known 100x10, aspect-ratio:2, InherentSize: PerformLayout returns 100x50 (and measures), ComputeSize returns 100x10
   (early return): the known height is not respected, and the two run modes disagree on the same question *)
Theorem KnownDimsRespected_leaf_refuted :
  exists o1 c1 o2 c2,
    compute_leaf_layout (w_known_input PerformLayout) w_ratio_only measure_zero = Some (o1, c1) /\
    compute_leaf_layout (w_known_input ComputeSize) w_ratio_only measure_zero = Some (o2, c2) /\
    size_rel xeq (out_size o1) (mkSize (Fin 100) (Fin 50)) /\ size_rel xeq (out_size o2) (mkSize (Fin 100) (Fin 10)) /\
    length c1 = 1%nat /\ c2 = [].
Proof. exact known_dims_ratio_witness. Qed.

(* ---- the tables regenerated from src/util/math.rs, src/util/resolve.rs, src/style/available_space.rs and
   src/geometry.rs on every run mean what the box model needs, for every number type: clamp = max (min v hi) lo with
   absent bounds ignored; lengths resolve to themselves, percentages only against a definite basis (else None / 0),
   auto to None / 0; min-/max-content pass through arithmetic; the aspect ratio transfers a size definite on exactly
   one axis (height = width / ratio, width = height * ratio) *)
Theorem C19_tables : forall (T : Type) (N : Num T) (v p b w h r : T) (lo hi : option T) (a : AvailableSpace T) (f : T -> T)
                            (s : Size (option T)),
  (maybe_clamp_fo v lo hi = sp_clamp v lo hi /\
   maybe_clamp_oo (Some v) lo hi = Some (sp_clamp v lo hi) /\ maybe_clamp_oo None lo hi = None) /\
  (maybe_max_fo v (Some p) = fmax v p /\ maybe_max_fo v None = v /\
   maybe_max_of (Some v) p = Some (fmax v p) /\ maybe_max_of None p = None /\
   maybe_add_of (Some v) p = Some (add v p) /\ maybe_add_of None p = None /\
   maybe_sub_of (Some v) p = Some (sub v p) /\ maybe_sub_of None p = None /\
   maybe_sub_af (Definite v) p = Definite (sub v p) /\
   maybe_sub_af MinContent p = MinContent /\ maybe_sub_af MaxContent p = MaxContent) /\
  (maybe_resolve_dim Auto (Some b) = None /\ maybe_resolve_dim (Length v) None = Some v /\
   maybe_resolve_dim (Length v) (Some b) = Some v /\
   maybe_resolve_dim (Percent v) (Some b) = Some (mul b v) /\ maybe_resolve_dim (Percent v) None = None /\
   resolve_or_zero_lp (LpLength v) None = v /\ resolve_or_zero_lp (LpPercent v) (Some b) = mul b v /\
   resolve_or_zero_lp (LpPercent v) None = zero /\
   resolve_or_zero_lpa Auto (Some b) = zero /\ resolve_or_zero_lpa (Length v) None = v /\
   resolve_or_zero_lpa (Percent v) (Some b) = mul b v /\ resolve_or_zero_lpa (Percent v) None = zero) /\
  (avail_into_option (Definite v) = Some v /\ avail_into_option (@MinContent T) = None /\
   avail_into_option (@MaxContent T) = None /\
   avail_maybe_set a (Some w) = Definite w /\ avail_maybe_set a None = a /\
   avail_map_definite_value (Definite v) f = Definite (f v) /\
   avail_map_definite_value MinContent f = MinContent /\ avail_map_definite_value MaxContent f = MaxContent) /\
  (maybe_apply_aspect_ratio (mkSize (Some w) None) (Some r) = mkSize (Some w) (Some (div w r)) /\
   maybe_apply_aspect_ratio (mkSize None (Some h)) (Some r) = mkSize (Some (mul h r)) (Some h) /\
   maybe_apply_aspect_ratio (mkSize (Some w) (Some h)) (Some r) = mkSize (Some w) (Some h) /\
   maybe_apply_aspect_ratio (mkSize None None) (Some r) = mkSize None None /\
   maybe_apply_aspect_ratio s None = s).
Proof.
  intros. split; [apply tables_clamp|]. split; [apply tables_arith|]. split; [apply tables_resolve|].
  split; [apply tables_avail | apply tables_ratio].
Qed.

(* ---- non-vacuity: a block root with content-box sizing, percentage padding, a scrollbar gutter, a percentage
   min-height and margins satisfies every premise of C19_spec_partial, and its layout is 170x62 with a 136 wide
   content box handed to the measure function *)
Example C19_example_premises :
  fin_style ex_style /\ size_all fin_avail ex_avail /\ fin_measure ex_measure /\
  nonneg_padding_border ex_style ex_avail /\ display ex_style <> DNone /\ aspect_ratio ex_style = None.
Proof. exact example_premises. Qed.

Example C19_example_result :
  exists lay aa, root_leaf ex_style ex_measure ex_avail = Some (lay, [(size_NONE, aa)]) /\
    size_rel xeq (l_size lay) (mkSize (Fin 170) (Fin 62)) /\ avail_xeq (width aa) (Definite (Fin 136)) /\
    size_rel xeq (l_content_size lay) (mkSize (Fin 156) (Fin 27)).
Proof. exact example_result. Qed.

(* ---- the hand model IS the source: `gen_compute_leaf_layout` (Gen/LeafGen.v) is the whole body of
   src/compute/leaf.rs:compute_leaf_layout (l.24-164: resolution, sizing modes, gutters, the collapse-through test, the
   early return, the available space, the measure call with its `unreachable!()`, clamp, ratio line, floor, output),
   compiled statement by statement from the working tree on every run by translator/gen_leaf.py (which refuses any form it
   does not know).  It equals the hand model Model/Leaf.v -- same output, same log of measure calls, same panic -- for ANY
   number type, so every theorem above about `compute_leaf_layout` / `root_leaf` is a theorem about the translated code. *)
Theorem C19_translated_leaf_is_model : forall (T : Type) (N : Num T)
    (inputs : LayoutInput T) (style : Style T) (measure : MeasureFn T),
  gen_compute_leaf_layout inputs style measure = compute_leaf_layout inputs style measure.
Proof. intros T N. exact gen_leaf_is_model. Qed.

(* the one-node tree over the translated leaf routine (Model/LeafGenRoot.v: Root.root_leaf with gen_compute_leaf_layout) *)
Theorem C19_translated_root_leaf_is_model : forall (T : Type) (N : Num T)
    (style : Style T) (measure : MeasureFn T) (av : Size (AvailableSpace T)),
  gen_root_leaf style measure av = root_leaf style measure av.
Proof. intros T N. exact gen_root_leaf_is_model. Qed.

(* ---- the same for compute_root_layout: `gen_compute_root_layout` (Gen/RootGen.v) is the whole body of
   src/compute/mod.rs:compute_root_layout (block stretch-fit known dimensions under cfg(block_layout), the
   perform_child_layout call with the LayoutInput that src/tree/traits.rs builds, the stored Layout), the child layout
   being a parameter that returns the output and the measure calls it made.  It is Root.root_input / Root.root_assemble
   around the child layout, for any number type and any child-layout function. *)
Theorem C19_translated_root_is_model : forall (T : Type) (N : Num T) (style : Style T)
    (child : LayoutInput T -> option (LayoutOutput T * list (MeasureCall T))) (av : Size (AvailableSpace T)),
  gen_compute_root_layout style child av =
  match child (root_input style av) with
  | Some (output, calls) => Some (root_assemble style av output, calls)
  | None => None
  end.
Proof. intros T N. exact gen_root_is_model. Qed.

(* translated root around translated leaf (only TaffyView::compute_child_layout's dispatch for a childless node on an
   empty cache stays hand-written, Root.childless_child_layout) = the `root_leaf` of the theorems above *)
Theorem C19_translated_root_translated_leaf_is_model : forall (T : Type) (N : Num T)
    (style : Style T) (measure : MeasureFn T) (av : Size (AvailableSpace T)),
  gen_root_gen_leaf style measure av = root_leaf style measure av.
Proof. intros T N. exact gen_root_gen_leaf_is_model. Qed.

(* C19_spec_partial (about translated root + translated leaf), C19_floor_leaf and C19_measure_args restated about the
   translated functions *)
Theorem C19_spec_translated_partial : forall (st : Style XQ) (measure : MeasureFn XQ) (av : Size (AvailableSpace XQ)),
  fin_style st -> size_all fin_avail av -> fin_measure measure -> nonneg_padding_border st av ->
  display st <> DNone -> aspect_ratio st = None ->
  exists lay aa,
    gen_root_gen_leaf st measure av = Some (lay, [(size_NONE, aa)]) /\
    size_rel avail_xeq aa (leaf_spec_measure_avail st av) /\
    layout_xeq lay (leaf_spec st av (measure size_NONE aa)).
Proof. exact gen_root_leaf_spec_noratio. Qed.

Theorem C19_floor_translated_leaf : forall (inputs : LayoutInput XQ) (st : Style XQ) (measure : MeasureFn XQ) out calls pbw pbh,
  gen_compute_leaf_layout inputs st measure = Some (out, calls) ->
  sum_axes (le_padding_border (leaf_env inputs st)) = mkSize (Fin pbw) (Fin pbh) ->
  x_leb (Fin pbw) (width (out_size out)) = true /\ x_leb (Fin pbh) (height (out_size out)) = true.
Proof. exact gen_leaf_floor. Qed.

Theorem C19_measure_args_translated : forall (inputs : LayoutInput XQ) (st : Style XQ) (measure : MeasureFn XQ) out calls,
  gen_compute_leaf_layout inputs st measure = Some (out, calls) ->
  (calls = [] /\ leaf_early inputs (leaf_env inputs st) = Some out) \/
  (leaf_early inputs (leaf_env inputs st) = None /\
   exists known, calls = [(known, leaf_spec_avail inputs st)] /\
     ((run_mode inputs = ComputeSize /\ known = known_dimensions inputs) \/
      (run_mode inputs = PerformLayout /\ known = size_NONE)) /\
     out = leaf_finish inputs (leaf_env inputs st) (measure known (leaf_spec_avail inputs st))).
Proof. exact gen_leaf_measure_args. Qed.

(* non-vacuity of C19_spec_translated_partial: the premises are C19_example_premises; the result, computed (vm_compute)
   with the translated routine *)
Example C19_translated_example_result :
  exists lay aa, gen_root_gen_leaf ex_style ex_measure ex_avail = Some (lay, [(size_NONE, aa)]) /\
    size_rel xeq (l_size lay) (mkSize (Fin 170) (Fin 62)) /\ avail_xeq (width aa) (Definite (Fin 136)) /\
    size_rel xeq (l_content_size lay) (mkSize (Fin 156) (Fin 27)).
Proof. exact gen_example_result. Qed.

Print Assumptions C19_spec_partial.
Print Assumptions C19_spec_refuted.
Print Assumptions C19_ratio_transfer.
Print Assumptions C19_floor.
Print Assumptions C19_floor_leaf.
Print Assumptions C19_floor_F32.
Print Assumptions C19_floor_leaf_F32.
Print Assumptions C19_clamped_partial.
Print Assumptions C19_clamped_refuted.
Print Assumptions C19_ratio_display_dependence.
Print Assumptions C19_location.
Print Assumptions C19_measure_args.
Print Assumptions C19_early_return.
Print Assumptions C19_display_none.
Print Assumptions KnownDimsRespected_leaf.
Print Assumptions KnownDimsRespected_leaf_content_size.
Print Assumptions KnownDimsRespected_leaf_refuted.
Print Assumptions C19_tables.
Print Assumptions C19_translated_leaf_is_model.
Print Assumptions C19_translated_root_leaf_is_model.
Print Assumptions C19_translated_root_is_model.
Print Assumptions C19_translated_root_translated_leaf_is_model.
Print Assumptions C19_spec_translated_partial.
Print Assumptions C19_floor_translated_leaf.
Print Assumptions C19_measure_args_translated.
Print Assumptions C19_translated_example_result.
