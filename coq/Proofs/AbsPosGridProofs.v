(* C11 -- grid containers.  About Gen.AbsPosGen.grid_place / grid_final_size / grid_align_item_within_area (generated from
   grid/alignment.rs) with the area grid/mod.rs builds for an absolutely positioned child whose grid lines are auto
   (Gen.AbsPosGen.grid_abs_area), baseline shim 0. *)
From Coq Require Import ZArith NArith QArith Bool List Lia Lqa.
From TV Require Import Num.Num Num.QNum Gen.AbsPosEnums Model.AbsPosBase Gen.AbsPosGen Model.AbsPos Proofs.AbsPosProofs Proofs.AbsPosBlockProofs.

(* the vertical axis subtracts the baseline shim (0 here) from the area before the insets *)
Definition raw_from_insets_shim (extent : XQ) (ms me : option XQ) (shim s e : XQ) : XQ :=
  fmax (sub (sub (sub (maybe_sub_FO (maybe_sub_FO extent ms) me) shim) s) e) zero.
Definition axis_choice_shim (extent : XQ) (sz s e ms me : option XQ) (shim measured : XQ) : XQ :=
  match sz with
  | Some w => w
  | None => match s, e with Some s, Some e => raw_from_insets_shim extent ms me shim s e | _, _ => measured end
  end.
Lemma raw_from_insets_shim_fin extent ms me shim s e :
  finite extent -> fin_opt ms -> fin_opt me -> finite shim -> finite s -> finite e -> finite (raw_from_insets_shim extent ms me shim s e).
Proof. intros. unfold raw_from_insets_shim. destruct ms, me; xq_arith. Qed.
Lemma axis_choice_shim_fin extent sz s e ms me shim measured :
  finite extent -> fin_opt sz -> fin_opt s -> fin_opt e -> fin_opt ms -> fin_opt me -> finite shim -> finite measured ->
  finite (axis_choice_shim extent sz s e ms me shim measured).
Proof.
  intros. unfold axis_choice_shim. destruct sz; [assumption|]. destruct s; [|assumption]. destruct e; [|assumption].
  apply raw_from_insets_shim_fin; assumption.
Qed.
Lemma clamp_inset_size_shim extent extent' s e ms me mn0 mx pb :
  xeq extent extent' -> finite extent' -> finite s -> finite e -> finite ms -> finite me -> fin_opt mn0 -> fin_opt mx -> finite pb ->
  xeq (maybe_clamp_FOO (raw_from_insets_shim extent (Some ms) (Some me) zero s e) (bf_min mn0 pb) mx)
      (inset_size extent' s e ms me mn0 mx pb).
Proof.
  intros Hx Hf. intros. pose proof (xeq_fin_l _ _ Hx Hf) as Hf'. rewrite bf_min_eff by assumption.
  unfold raw_from_insets_shim, inset_size, eff_min.
  destruct mn0 as [mn0|], mx as [mx|]; fin_destruct; cbn [xeq] in Hx; xq; qcases; xq; qcases; cbn [xeq]; lra.
Qed.

Ltac fin_side_g :=
  repeat match goal with
  | |- finite (maybe_clamp_FOO _ _ _) => apply clamp_FOO_fin
  | |- fin_opt (maybe_max_OF (opt_or ?m (Some ?p)) ?p) => apply (bf_min_fin m p)
  | |- finite (x_max (x_sub (x_sub (maybe_sub_FO (maybe_sub_FO ?a ?ms) ?me) ?s) ?e) (Fin 0)) => apply (raw_from_insets_fin a ms me s e)
  | |- finite (x_max (x_sub (x_sub (x_sub (maybe_sub_FO (maybe_sub_FO ?a ?ms) ?me) ?sh) ?s) ?e) (Fin 0)) => apply (raw_from_insets_shim_fin a ms me sh s e)
  | |- fin_opt (Some _) => cbn [fin_opt]
  | |- fin_opt None => exact I
  | |- _ => assumption
  end.

Lemma opt_or_some {A} (x : A) y : opt_or (Some x) y = Some x. Proof. reflexivity. Qed.
Lemma opt_or_none {A} (y : option A) : opt_or None y = y. Proof. reflexivity. Qed.
Ltac known_norm_g :=
  repeat (progress (rewrite ?clamp_OOO_some, ?clamp_OOO_none, ?opt_or_some, ?opt_or_none, ?andb_false_r;
                    cbn -[maybe_clamp_OOO maybe_clamp_FOO maybe_max_OF opt_or maybe_sub_FO x_max x_min])).

Definition ga_size (ga : Rect XQ) : Size XQ := mkSize (sub (r_right ga) (r_left ga)) (sub (r_bottom ga) (r_top ga)).

Lemma grid_final_w ga cas shim i measured :
  ai_aspect_ratio i = None -> ai_position i = Pos_Absolute -> fin_size (ga_size ga) -> fin_in i -> fin_size measured ->
  s_width (grid_final_size ga cas shim i measured) =
  maybe_clamp_FOO (axis_choice (s_width (ga_size ga)) (s_width (ai_size i)) (r_left (ai_inset i)) (r_right (ai_inset i))
                               (r_left (ai_margin i)) (r_right (ai_margin i)) (s_width measured))
                  (bf_min (s_width (ai_min0 i)) (s_width (ai_pb_sum i))) (s_width (ai_max i)).
Proof.
  intros Har Hpos Ha Hi Hm.
  unfold grid_final_size.
  change (mkSize (sub (r_right ga) (r_left ga)) (sub (r_bottom ga) (r_top ga))) with (ga_size ga).
  destruct (ga_size ga) as [aw ah].
  destruct i as [ar [mL mR mT mB] [iL iR iT iB] pad bor [pbw pbh] [sw sh] [mnw mnh] [mxw mxh] als jus pos].
  destruct measured as [mw mh].
  cbn in Har, Hpos. subst ar pos. fin_unfold; cbn in Ha, Hi, Hm. fin_split.
  unfold bf_min, axis_choice, raw_from_insets.
  destruct sw as [sw|], iL as [iL|], iR as [iR|]; known_norm_g;
    rewrite ?clamp_FOO_idem by fin_side_g; reflexivity.
Qed.

Lemma grid_final_h ga cas shim i measured :
  ai_aspect_ratio i = None -> ai_position i = Pos_Absolute -> fin_size (ga_size ga) -> finite shim -> fin_in i -> fin_size measured ->
  s_height (grid_final_size ga cas shim i measured) =
  maybe_clamp_FOO (axis_choice_shim (s_height (ga_size ga)) (s_height (ai_size i)) (r_top (ai_inset i)) (r_bottom (ai_inset i))
                               (r_top (ai_margin i)) (r_bottom (ai_margin i)) shim (s_height measured))
                  (bf_min (s_height (ai_min0 i)) (s_height (ai_pb_sum i))) (s_height (ai_max i)).
Proof.
  intros Har Hpos Ha Hsh Hi Hm.
  unfold grid_final_size.
  change (mkSize (sub (r_right ga) (r_left ga)) (sub (r_bottom ga) (r_top ga))) with (ga_size ga).
  destruct (ga_size ga) as [aw ah].
  destruct i as [ar [mL mR mT mB] [iL iR iT iB] pad bor [pbw pbh] [sw sh] [mnw mnh] [mxw mxh] als jus pos].
  destruct measured as [mw mh].
  cbn in Har, Hpos. subst ar pos. fin_unfold; cbn in Ha, Hi, Hm. fin_split.
  unfold bf_min, axis_choice_shim, raw_from_insets_shim.
  destruct sh as [sh|], iT as [iT|], iB as [iB|]; known_norm_g;
    rewrite ?clamp_FOO_idem by fin_side_g; reflexivity.
Qed.

Lemma grid_area_fin ct : fin_container ct ->
  fin_size (ga_size (grid_area_of ct)) /\ xeq (s_width (ga_size (grid_area_of ct))) (pbox_w ct) /\
  xeq (s_height (ga_size (grid_area_of ct))) (pbox_h ct) /\ finite (pbox_w ct) /\ finite (pbox_h ct).
Proof.
  destruct ct as [[W Hh] [bl br bt bb] [pl pr pt pb] [gx gy]]. fin_unfold. cbn. intros. repeat split; xq_arith.
Qed.

Definition grid_premises (ct : @Container XQ) (i : AbsIn XQ) (measured : Size XQ) : Prop :=
  block_premises ct i measured /\ ai_position i = Pos_Absolute.

Lemma grid_final_fin ct ji ai i measured : grid_premises ct i measured ->
  fin_size (grid_final_size (grid_area_of ct) (mkInBoth ji ai) zero i measured).
Proof.
  intros ((Hc & Hi & Hm & Har) & Hpos). destruct (grid_area_fin ct Hc) as (Ha & _).
  split; [rewrite grid_final_w by assumption | rewrite grid_final_h by (try assumption; exact I)];
    fin_unfold; fin_split; (apply clamp_FOO_fin; [first [apply axis_choice_fin | apply axis_choice_shim_fin] | apply bf_min_fin |]; try assumption; exact I).
Qed.

Ltac grid_go :=
  match goal with
  | P : grid_premises ?ct ?i ?measured |- context [abs_grid_place ?ct ?ji ?ai ?i ?measured] =>
      let HF := fresh "HF" in let Hc := fresh "Hc" in let Hi := fresh "Hi" in let Hm := fresh "Hm" in
      let Har := fresh "Har" in let Hpos := fresh "Hpos" in
      pose proof (grid_final_fin ct ji ai i measured P) as HF;
      destruct P as ((Hc & Hi & Hm & Har) & Hpos);
      unfold abs_grid_place in *;
      destruct i as [ar [mL mR mT mB] [iL iR iT iB] pad bor [pbw pbh] [sw sh] [mnw mnh] [mxw mxh] als jus pos];
      cbn [ai_aspect_ratio ai_margin ai_inset ai_size ai_min0 ai_max ai_pb_sum ai_position r_left r_right r_top r_bottom s_width s_height] in * |-; subst;
      unfold grid_place;
      match goal with
      | HF' : fin_size ?F |- _ => destruct F as [fw fh]
      end;
      destruct ct as [[W Hh] [bl br bt bb] [pl pr pt pb] [gx gy]];
      fin_unfold; cbn in * |-; cbn
  end.

Lemma start_grid_x ct ji ai i measured s ml mr : grid_premises ct i measured ->
  r_left (ai_inset i) = Some s -> r_left (ai_margin i) = Some ml -> r_right (ai_margin i) = Some mr ->
  let o := abs_grid_place ct ji ai i measured in
  xeq (sub (p_x (o_location o)) (r_left (o_margin o))) (add (pbox_start_x ct) s).
Proof. intros P ? ? ? o; subst o. grid_go. xq_arith. Qed.

Lemma start_grid_y ct ji ai i measured s mt mb : grid_premises ct i measured ->
  r_top (ai_inset i) = Some s -> r_top (ai_margin i) = Some mt -> r_bottom (ai_margin i) = Some mb ->
  let o := abs_grid_place ct ji ai i measured in
  xeq (sub (p_y (o_location o)) (r_top (o_margin o))) (add (pbox_start_y ct) s).
Proof. intros P ? ? ? o; subst o. grid_go. xq_arith. Qed.

(* the end equation needs a padding box of non-negative extent: align_item_within_area clamps the extent of the area to 0 *)
Lemma end_grid_x ct ji ai i measured e ml mr : grid_premises ct i measured -> leb zero (pbox_w ct) = true ->
  r_left (ai_inset i) = None -> r_right (ai_inset i) = Some e -> r_left (ai_margin i) = Some ml -> r_right (ai_margin i) = Some mr ->
  let o := abs_grid_place ct ji ai i measured in
  xeq (sub (pbox_end_x ct) (add (add (p_x (o_location o)) (s_width (o_size o))) (r_right (o_margin o)))) e.
Proof.
  intros P Hnn ? ? ? ? o; subst o. grid_go. fin_destruct. cbn in Hnn. apply Qle_bool_iff in Hnn. xq_arith.
Qed.

Lemma end_grid_y ct ji ai i measured e mt mb : grid_premises ct i measured -> leb zero (pbox_h ct) = true ->
  r_top (ai_inset i) = None -> r_bottom (ai_inset i) = Some e -> r_top (ai_margin i) = Some mt -> r_bottom (ai_margin i) = Some mb ->
  let o := abs_grid_place ct ji ai i measured in
  xeq (sub (pbox_end_y ct) (add (add (p_y (o_location o)) (s_height (o_size o))) (r_bottom (o_margin o)))) e.
Proof.
  intros P Hnn ? ? ? ? o; subst o. grid_go. fin_destruct. cbn in Hnn. apply Qle_bool_iff in Hnn. xq_arith.
Qed.

Lemma grid_place_size ga cas shim i measured : ai_aspect_ratio i = None ->
  o_size (grid_place ga cas shim i measured) = grid_final_size ga cas shim i measured.
Proof.
  intro Har. destruct i as [ar [mL mR mT mB] [iL iR iT iB] pad bor [pbw pbh] [sw sh] [mnw mnh] [mxw mxh] als jus pos].
  cbn in Har. subst ar. unfold grid_place. cbn -[grid_final_size].
  destruct (grid_final_size _ _ _ _ _). reflexivity.
Qed.

Lemma size_grid_x ct ji ai i measured s e ml mr : grid_premises ct i measured ->
  r_left (ai_inset i) = Some s -> r_right (ai_inset i) = Some e -> s_width (ai_size i) = None ->
  r_left (ai_margin i) = Some ml -> r_right (ai_margin i) = Some mr ->
  xeq (s_width (o_size (abs_grid_place ct ji ai i measured)))
      (inset_size (pbox_w ct) s e ml mr (s_width (ai_min0 i)) (s_width (ai_max i)) (s_width (ai_pb_sum i))).
Proof.
  intros ((Hc & Hi & Hm & Har) & Hpos) Hl Hr Hs Hml Hmr.
  destruct (grid_area_fin ct Hc) as (Ha & Hw & _ & Hfw & _).
  unfold abs_grid_place. rewrite grid_place_size by assumption.
  rewrite grid_final_w by assumption. rewrite Hl, Hr, Hs, Hml, Hmr. cbn [axis_choice].
  unfold fin_in, fin_orect, fin_osize, fin_size in Hi. rewrite Hl, Hr, Hml, Hmr in Hi. cbn [fin_opt] in Hi.
  apply clamp_inset_size; tauto.
Qed.

Lemma size_grid_y ct ji ai i measured s e mt mb : grid_premises ct i measured ->
  r_top (ai_inset i) = Some s -> r_bottom (ai_inset i) = Some e -> s_height (ai_size i) = None ->
  r_top (ai_margin i) = Some mt -> r_bottom (ai_margin i) = Some mb ->
  xeq (s_height (o_size (abs_grid_place ct ji ai i measured)))
      (inset_size (pbox_h ct) s e mt mb (s_height (ai_min0 i)) (s_height (ai_max i)) (s_height (ai_pb_sum i))).
Proof.
  intros ((Hc & Hi & Hm & Har) & Hpos) Hl Hr Hs Hml Hmr.
  destruct (grid_area_fin ct Hc) as (Ha & _ & Hw & _ & Hfw).
  unfold abs_grid_place. rewrite grid_place_size by assumption.
  rewrite grid_final_h by (try assumption; exact I). rewrite Hl, Hr, Hs, Hml, Hmr. cbn [axis_choice_shim].
  unfold fin_in, fin_orect, fin_osize, fin_size in Hi. rewrite Hl, Hr, Hml, Hmr in Hi. cbn [fin_opt] in Hi.
  apply clamp_inset_size_shim; tauto.
Qed.
