(* C10 for WHOLE TREES: what one evaluation of a block container inside the engine leaves behind, stated over the child outputs
   the engine REALLY computed (each in-flow child's final-layout cache entry) instead of oracle values.

     flow_fact     after a PerformLayout evaluation of a block container with output o: there is a list `outs` of child outputs
                   such that, with P = the loop constants compute_inner derives for the container's own width (s_w (co_size o)) and
                   rs = the results of Model/Block.v block_inflow on (items, outs) -- the very function C10's K1 / K2 run and
                   C10_order_no_overlap / C10_fill_width are about --, every in-flow item's child holds
                     * as stored layout: inflow_layout item r co     (location / size / margins of ITS ItemResult r)
                     * as final cache entry: (a key matching the input child_input P item, co)
                   i.e. `outs` are the outputs those children returned to this container in this evaluation.
     block_inner_post   Post flow_fact for the block resumption (Proofs/EnginePost.v): by induction over the resumption --
                   measuring queries (content_width_post), the in-flow pass (inflow_post: items are visited in strictly
                   increasing child position, so later steps never touch an earlier record), the absolute pass (only
                   absolute children), the hidden pass (only display:none children)
     tree level    TInv of Proofs/EnginePost.v instantiated: holds after ANY sequence of PerformLayout passes from a fresh tree.
   Any `Num`.  The order clause (over XQ) is in Proofs/BlockTreeOrder.v. *)
From Coq Require Import List Bool Arith ZArith Lia Sorted.
From TV Require Import Num.Num Gen.BlockGen Model.Block Model.Engine.
From TV Require Import Model.FiltersBase Gen.FiltersGen Model.ItemFilters Proofs.ItemFiltersBase Proofs.ItemFiltersHiddenBlock Model.BlockAlg Proofs.BlockAlgBlind.
From TV Require Import Model.BlockEngine Model.BlockAbs Proofs.EnginePost Proofs.BlockProofs.
Import ListNotations.

(* ------------------------------------------------------------------------------------------------------------ *)
(** * Strictly increasing lists of child positions *)

Lemma ss_head_lt x l : StronglySorted lt (x :: l) -> forall y, In y l -> x < y.
Proof. intros H y Hy. apply StronglySorted_inv in H. destruct H as [_ Hall]. rewrite Forall_forall in Hall. apply Hall. exact Hy. Qed.
Lemma ss_nth_lt l : StronglySorted lt l -> forall k1 k2 x y, k1 < k2 -> nth_error l k1 = Some x -> nth_error l k2 = Some y -> x < y.
Proof.
  induction 1 as [|a l Hs IH Hall]; intros k1 k2 x y Hlt H1 H2; [destruct k1; discriminate|].
  destruct k2 as [|k2]; [lia|]. cbn [nth_error] in H2. destruct k1 as [|k1]; cbn [nth_error] in H1.
  - injection H1 as <-. rewrite Forall_forall in Hall. apply Hall. eapply nth_error_In; exact H2.
  - apply (IH k1 k2); [lia|assumption|assumption].
Qed.
Lemma ss_nth_inj l : StronglySorted lt l -> forall k1 k2 x, nth_error l k1 = Some x -> nth_error l k2 = Some x -> k1 = k2.
Proof.
  intros Hs k1 k2 x H1 H2. destruct (Nat.lt_trichotomy k1 k2) as [Hlt|[Heq|Hgt]]; [|exact Heq|].
  - pose proof (ss_nth_lt l Hs k1 k2 x x Hlt H1 H2). lia.
  - pose proof (ss_nth_lt l Hs k2 k1 x x Hgt H2 H1). lia.
Qed.
Lemma ss_nth_mono l : StronglySorted lt l -> forall k1 k2 x y, nth_error l k1 = Some x -> nth_error l k2 = Some y -> x < y -> k1 < k2.
Proof.
  intros Hs k1 k2 x y H1 H2 Hxy. destruct (Nat.lt_trichotomy k1 k2) as [Hlt|[Heq|Hgt]]; [exact Hlt| |].
  - subst k2. rewrite H1 in H2. injection H2 as <-. lia.
  - pose proof (ss_nth_lt l Hs k2 k1 y x Hgt H2 H1). lia.
Qed.

Lemma enumerate_from_fst_sorted {A} (l : list A) : forall n,
  StronglySorted lt (map fst (g_enumerate_from n l)) /\ Forall (fun c => n <= c) (map fst (g_enumerate_from n l)).
Proof.
  induction l as [|x l IH]; intros n; cbn [g_enumerate_from map fst]; [split; constructor|].
  destruct (IH (S n)) as [Hs Hall]. split.
  - constructor; [exact Hs|]. eapply Forall_impl; [|exact Hall]. cbn. intros c Hc. lia.
  - constructor; [lia|]. eapply Forall_impl; [|exact Hall]. cbn. intros c Hc. lia.
Qed.
Lemma ss_filter_map {A} (f : A -> nat) (p : A -> bool) (l : list A) :
  StronglySorted lt (map f l) -> StronglySorted lt (map f (filter p l)).
Proof.
  induction l as [|x l IH]; cbn [map filter]; intros Hs; [constructor|].
  apply StronglySorted_inv in Hs. destruct Hs as [Hs Hall]. destruct (p x); cbn [map]; [|apply IH; exact Hs].
  constructor; [apply IH; exact Hs|]. rewrite Forall_forall in *. intros y Hy. apply Hall.
  apply in_map_iff in Hy. destruct Hy as [z [<- Hz]]. apply in_map. apply filter_In in Hz. apply Hz.
Qed.

Section Flow.
  Context {T : Type} `{Num T}.
  Variable in_eqb : BIn T -> BIn T -> bool.

  Notation BAlg := (Engine.Alg (BIn T) (ChildOut T) (BLayout T)).
  Notation is_absi a := (position_is_absolute (it_position (ai_item a))).
  Notation AItem := (@BlockAlg.AItem T).
  Notation St := (EnginePost.St (BIn T) (ChildOut T) (BLayout T)).
  Notation Post := (EnginePost.Post (BIn T) (ChildOut T) (BLayout T) (@bi_mode T) in_eqb).
  Notation upd := (EnginePost.upd (BIn T) (ChildOut T) (BLayout T)).
  Notation key_match := (EnginePost.key_match (BIn T) in_eqb).

  (* ------------------------------------------------------------------ the items: positions strictly increasing, complete *)
  Lemma alg_items_nodes children nis :
    map ai_node (block_alg_items children nis) =
    map fst (filter (fun c : nat * BStyle T => negb (s_hidden bs_bgm (snd c))) (g_enumerate children)).
  Proof.
    rewrite alg_items_nf. unfold block_nf. rewrite map_map. unfold mk_aitem, ai_node. cbn [fst snd].
    generalize (filter (fun c : nat * BStyle T => negb (s_hidden bs_bgm (snd c))) (g_enumerate children)). intros l. generalize 0.
    induction l as [|x l IH]; intros n; cbn [g_enumerate_from map fst snd]; [reflexivity|]. f_equal. apply IH.
  Qed.

  Lemma alg_items_sorted children nis : StronglySorted lt (map ai_node (block_alg_items children nis)).
  Proof. rewrite alg_items_nodes. apply ss_filter_map. apply (enumerate_from_fst_sorted children 0). Qed.

  Lemma In_enumerate_from_nth {A} (l : list A) : forall n c x, nth_error l c = Some x -> In (n + c, x) (g_enumerate_from n l).
  Proof.
    induction l as [|y l IH]; intros n c x Hn; [destruct c; discriminate|]. destruct c as [|c]; cbn [nth_error g_enumerate_from] in *.
    - injection Hn as ->. left. f_equal. lia.
    - right. replace (n + S c) with (S n + c) by lia. apply IH. exact Hn.
  Qed.

  Lemma alg_items_complete children nis c s :
    nth_error children c = Some s -> bs_is_none s = false -> exists k a, nth_error (block_alg_items children nis) k = Some a /\ ai_node a = c.
  Proof.
    intros Hn Hnone.
    assert (Hin : In c (map ai_node (block_alg_items children nis))).
    { rewrite alg_items_nodes. apply in_map_iff. exists (c, s). split; [reflexivity|]. apply filter_In. split.
      - exact (In_enumerate_from_nth children 0 c s Hn).
      - cbn [snd]. unfold bs_is_none in Hnone. rewrite Hnone. reflexivity. }
    apply in_map_iff in Hin. destruct Hin as [a [Ea Hin]]. apply In_nth_error in Hin. destruct Hin as [k Hk]. exists k, a. split; assumption.
  Qed.

  (* ------------------------------------------------------------------ the records *)
  Definition rec_ok (P : Params T) (sg : St) (a : AItem) (r : ItemResult T) (co : ChildOut T) : Prop :=
    exists i', key_match i' (child_input P (ai_item a)) /\ sg (ai_node a) = (inflow_layout (ai_item a) r co, Some (i', co)).
  Definition recs_ok (P : Params T) (sg : St) (items : list AItem) (outs : list (ChildOut T)) (rs : list (ItemResult T)) : Prop :=
    forall k a co r, nth_error items k = Some a -> nth_error outs k = Some co -> nth_error rs k = Some r -> is_absi a = false ->
      rec_ok P sg a r co.

  Definition flow_fact (st : BStyle T) (children : list (BStyle T)) (inp : BIn T) (sg : St) (o : ChildOut T) : Prop :=
    let binp := mkInput (bi_known inp) (bi_parent inp) (bi_collapsible inp) in
    let items := block_alg_items children (block_node_inner_size st binp) in
    let P := block_params st binp (s_w (co_size o)) in
    exists outs, length outs = length items /\
      recs_ok P sg items outs (io_results (block_inflow P (combine (map ai_item items) outs))).

  Section WithPhi.
    Variable Phi : St -> ChildOut T -> Prop.

    (* ---- determine_content_based_container_width: queries only *)
    Lemma content_width_post aw items : forall mx (k : T -> BAlg) sg, (forall w sg', Post Phi sg' (k w)) -> Post Phi sg (content_width_alg aw items mx k).
    Proof.
      induction items as [|a items IH]; intros mx k sg Hk; cbn [content_width_alg]; [apply Hk|].
      destruct (is_absi a); [apply IH; exact Hk|].
      destruct (s_w (sz_maybe_clamp (it_size (ai_item a)) (it_min_size (ai_item a)) (it_max_size (ai_item a)))).
      - apply IH; exact Hk.
      - apply P_query; [reflexivity|]. intros o i' _. apply IH; exact Hk.
    Qed.

    (* ---- the in-flow pass *)
    Lemma inflow_post P : forall items st acc sg (K : State T -> list (AItem * ItemResult T) -> BAlg),
      StronglySorted lt (map ai_node items) ->
      (forall outs sgF, length outs = length items ->
         (forall c, ~ In c (map ai_node items) -> sgF c = sg c) ->
         recs_ok P sgF items outs (snd (inflow_loop P st (combine (map ai_item items) outs))) ->
         Post Phi sgF (K (fst (inflow_loop P st (combine (map ai_item items) outs)))
                         (rev acc ++ combine items (snd (inflow_loop P st (combine (map ai_item items) outs)))))) ->
      Post Phi sg (inflow_alg P st items acc K).
    Proof.
      induction items as [|a items IH]; intros st acc sg K Hs HK; cbn [inflow_alg].
      - specialize (HK [] sg eq_refl (fun c _ => eq_refl)). cbn [map combine inflow_loop fst snd] in HK. rewrite app_nil_r in HK.
        apply HK. intros k a co r Hk. destruct k; discriminate.
      - cbn [map] in Hs. pose proof (ss_head_lt _ _ Hs) as Hhead. apply StronglySorted_inv in Hs. destruct Hs as [Hs _].
        destruct (is_absi a) eqn:Eabs.
        + apply IH; [exact Hs|]. intros outs sgF Hlen Hframe Hrecs.
          specialize (HK (no_out :: outs) sgF). cbn [map combine length] in HK. rewrite loop_cons_g in HK. cbn [fst snd] in HK.
          cbn [rev] in *. rewrite <- app_assoc in *. cbn [app] in *. apply HK.
          * cbn. f_equal. exact Hlen.
          * intros c Hc. apply Hframe. intros Hin. apply Hc. right. exact Hin.
          * intros k a0 co r Hk Ho Hr Ha0. destruct k as [|k]; cbn [nth_error] in *.
            -- injection Hk as <-. rewrite Eabs in Ha0. discriminate.
            -- apply (Hrecs k a0 co r); assumption.
        + apply P_query; [reflexivity|]. intros o i' Hi'. apply P_set. apply IH; [exact Hs|].
          intros outs sgF Hlen Hframe Hrecs.
          specialize (HK (o :: outs) sgF). cbn [map combine length] in HK. rewrite loop_cons_g in HK. cbn [fst snd] in HK.
          cbn [rev] in *. rewrite <- app_assoc in *. cbn [app] in *. apply HK.
          * cbn. f_equal. exact Hlen.
          * intros c Hc. rewrite Hframe by (intros Hin; apply Hc; right; exact Hin).
            assert (Hne : c <> ai_node a) by (intros ->; apply Hc; left; reflexivity).
            rewrite !upd_other by exact Hne. reflexivity.
          * intros k a0 co r Hk Ho Hr Ha0. destruct k as [|k]; cbn [nth_error] in *.
            -- injection Hk as <-. injection Ho as <-. injection Hr as <-.
               exists i'. split; [exact Hi'|]. rewrite Hframe.
               ++ rewrite !upd_same. cbn [fst snd]. reflexivity.
               ++ intros Hin. pose proof (Hhead _ Hin). lia.
            -- apply (Hrecs k a0 co r); assumption.
    Qed.

    (* ---- the absolute pass: routines that address only the item's own node, with PerformLayout queries *)
    Inductive OnlyChildPL (c : nat) (K : BSize T -> BAlg) : BAlg -> Prop :=
    | OCP_done v : OnlyChildPL c K (K v)
    | OCP_query i k : bi_mode i = PerformLayout -> (forall o, OnlyChildPL c K (k o)) -> OnlyChildPL c K (Engine.Query _ _ _ c i k)
    | OCP_set l a : OnlyChildPL c K a -> OnlyChildPL c K (Engine.SetLayout _ _ _ c l a).
    Definition AbsChildLocalPL (abs_child : @AbsChild T) : Prop :=
      forall st sz a r K, OnlyChildPL (ai_node a) K (abs_child st sz a r K).

    Lemma only_child_post c (K : BSize T -> BAlg) x : OnlyChildPL c K x ->
      forall sg, (forall v sg', (forall c', c' <> c -> sg' c' = sg c') -> Post Phi sg' (K v)) -> Post Phi sg x.
    Proof.
      induction 1 as [v|i k Hm Hk IHk|l a Ha IHa]; intros sg HK.
      - apply HK. intros c' _. reflexivity.
      - apply P_query; [exact Hm|]. intros o i' _. apply IHk. intros v sg' Hf. apply HK. intros c' Hne. rewrite Hf by exact Hne. apply upd_other. exact Hne.
      - apply P_set. apply IHa. intros v sg' Hf. apply HK. intros c' Hne. rewrite Hf by exact Hne. apply upd_other. exact Hne.
    Qed.

    Definition abs_nodes (ars : list (AItem * ItemResult T)) : list nat :=
      map (fun ar => ai_node (fst ar)) (filter (fun ar => is_absi (fst ar)) ars).

    Lemma abs_pass_post abs_child (Hloc : AbsChildLocalPL abs_child) st sz : forall ars sg content (k : BSize T -> BAlg),
      (forall v sg', (forall c', ~ In c' (abs_nodes ars) -> sg' c' = sg c') -> Post Phi sg' (k v)) ->
      Post Phi sg (abs_pass abs_child st sz ars content k).
    Proof.
      induction ars as [|[a r] ars IH]; intros sg content k Hk; cbn [abs_pass].
      - apply Hk. intros c' _. reflexivity.
      - unfold abs_nodes in *. cbn [filter fst] in *. destruct (is_absi a) eqn:Ea.
        + eapply only_child_post; [apply Hloc|]. intros v sg1 Hf1. apply IH. intros v2 sg2 Hf2. apply Hk.
          intros c' Hc'. cbn [map fst] in Hc'. rewrite Hf2 by (intros Hin; apply Hc'; right; exact Hin).
          apply Hf1. intros ->. apply Hc'. left. reflexivity.
        + apply IH. exact Hk.
    Qed.

    (* ---- the hidden pass: touches only the positions whose flag is set *)
    Definition touched (flags : list bool) (order c : nat) : bool :=
      (order <=? c) && match nth_error flags (c - order) with Some true => true | _ => false end.
    Lemma touched_cons h flags order c :
      touched (h :: flags) order c = if Nat.eqb c order then h else touched flags (S order) c.
    Proof.
      unfold touched. destruct (Nat.eqb c order) eqn:E.
      - apply Nat.eqb_eq in E. subst c. rewrite Nat.leb_refl, Nat.sub_diag. cbn. destruct h; reflexivity.
      - apply Nat.eqb_neq in E. destruct (Nat.lt_ge_cases c order) as [Hlt|Hge].
        + replace (order <=? c) with false by (symmetry; apply Nat.leb_gt; lia).
          replace (S order <=? c) with false by (symmetry; apply Nat.leb_gt; lia). reflexivity.
        + replace (order <=? c) with true by (symmetry; apply Nat.leb_le; lia).
          replace (S order <=? c) with true by (symmetry; apply Nat.leb_le; lia).
          replace (c - order) with (S (c - S order)) by lia. reflexivity.
    Qed.

    Lemma hidden_pass_post : forall flags order sg (k : BAlg),
      (forall sg', (forall c, touched flags order c = false -> sg' c = sg c) -> Post Phi sg' k) ->
      Post Phi sg (hidden_pass flags order k).
    Proof.
      induction flags as [|h flags IH]; intros order sg k Hk; cbn [hidden_pass].
      - apply Hk. intros c _. reflexivity.
      - destruct h.
        + apply P_query; [reflexivity|]. intros o i' _. apply P_set. apply IH. intros sg' Hf'. apply Hk. intros c Hc.
          rewrite touched_cons in Hc. destruct (Nat.eqb c order) eqn:E; [discriminate|]. apply Nat.eqb_neq in E.
          rewrite (Hf' c Hc). rewrite !upd_other by exact E. reflexivity.
        + apply IH. intros sg' Hf'. apply Hk. intros c Hc. rewrite touched_cons in Hc.
          destruct (Nat.eqb c order) eqn:E.
          * apply Nat.eqb_eq in E. subst c. apply Hf'. unfold touched. replace (S order <=? order) with false by (symmetry; apply Nat.leb_gt; lia). reflexivity.
          * apply Hf'. exact Hc.
    Qed.
  End WithPhi.

  (* ------------------------------------------------------------------ compute_inner *)
  Theorem block_inner_post abs_child (Hloc : AbsChildLocalPL abs_child) st children inp sg :
    bi_mode inp = PerformLayout -> Post (flow_fact st children inp) sg (block_inner_alg abs_child st children inp).
  Proof.
    intros Hm. unfold block_inner_alg. cbv zeta.
    set (binp := mkInput (bi_known inp) (bi_parent inp) (bi_collapsible inp)).
    set (items := block_alg_items children (block_node_inner_size st binp)).
    assert (Hafter : forall outer_w sg0,
      Post (flow_fact st children inp) sg0
        (match is_compute_size (bi_mode inp), s_h (bi_known inp) with
         | true, Some h => Engine.Ret _ _ _ (from_outer_size (mkSize outer_w h))
         | _, _ =>
             let P := block_params st binp outer_w in
             inflow_alg P (init_state P) items []
               (fun stF ars =>
                  let io := inflow_finish P stF (map snd ars) in
                  let outer_h := block_outer_height st binp (io_height io) in
                  let sz := mkSize outer_w outer_h in
                  if is_compute_size (bi_mode inp) then Engine.Ret _ _ _ (from_outer_size sz)
                  else
                    abs_pass abs_child st sz ars sz_zero
                      (fun abs_content =>
                         hidden_pass (map (s_hidden bs_bgm) children) 0
                           (Engine.Ret _ _ _ (mkOut sz (sz_fmax (io_content_size io) abs_content)
                                       (fst (block_output_margins st binp io)) (snd (block_output_margins st binp io))
                                       (block_can_collapse_through st binp (io_results io))))))
         end)).
    { intros outer_w sg0. rewrite Hm. cbn [is_compute_size]. cbv zeta.
      apply inflow_post; [apply alg_items_sorted|]. intros outs sgF Hlen Hframe Hrecs.
      apply abs_pass_post; [exact Hloc|]. intros v sg1 Hf1. apply hidden_pass_post. intros sg2 Hf2. apply P_ret.
      unfold flow_fact. cbv zeta. cbn [co_size s_w]. fold binp. fold items. exists outs. split; [exact Hlen|].
      rewrite io_results_eq. intros k a co r Hk Ho Hr Ha.
      destruct (Hrecs k a co r Hk Ho Hr Ha) as (i' & Hi' & Hsg). exists i'. split; [exact Hi'|].
      assert (Hin : In a items) by (eapply nth_error_In; exact Hk).
      destruct (alg_items_sound children _ a Hin) as (Hn & Hnone & Hpos).
      rewrite Hf2, Hf1; [exact Hsg| |].
      - (* not an absolute item's node *)
        intros Habs. unfold abs_nodes in Habs. apply in_map_iff in Habs. destruct Habs as [[a' r'] [En Hfil]]. cbn [fst] in En.
        apply filter_In in Hfil. destruct Hfil as [Hin' Habs']. cbn [fst] in Habs'. cbn [rev app] in Hin'.
        apply in_combine_l in Hin'. destruct (alg_items_sound children _ a' Hin') as (Hn' & _ & Hpos').
        rewrite En, Hn in Hn'. injection Hn' as E. rewrite Hpos', <- E, <- Hpos, Ha in Habs'. discriminate.
      - (* not a display:none child *)
        unfold touched. cbn [Nat.leb]. rewrite Nat.sub_0_r, nth_error_map, Hn. cbn [option_map].
        unfold bs_is_none in Hnone. rewrite Hnone. reflexivity. }
    destruct (s_w (bi_known inp)) as [w|]; [apply Hafter|].
    apply content_width_post. intros w sg'. apply Hafter.
  Qed.

  (* ------------------------------------------------------------------ the engine's algorithm *)
  Definition bl_fact (pre : BStyle T -> BIn T -> BIn T) (n : BNode T) (kids : list (BNode T)) (i : BIn T) (sg : St) (o : ChildOut T) : Prop :=
    match kids with
    | [] => True
    | _ => flow_fact (bn_style n) (map bn_style kids) (pre (bn_style n) i) sg o
    end.

  Lemma bl_algo_post pre abs_child : (forall s i, bi_mode (pre s i) = bi_mode i) -> AbsChildLocalPL abs_child ->
    forall n kids i sg, bi_mode i = PerformLayout -> Post (bl_fact pre n kids i) sg (bl_algo pre abs_child n kids i).
  Proof.
    intros Hpre Hloc n kids i sg Hm. unfold bl_algo, bl_fact. destruct kids as [|k0 kids]; [apply P_ret; exact I|].
    unfold block_alg. apply block_inner_post; [exact Hloc|]. rewrite Hpre. exact Hm.
  Qed.

  Lemma abs_child_block_local_pl : AbsChildLocalPL (abs_child_block (T := T)).
  Proof. intros st sz a r K. unfold abs_child_block. apply OCP_query; [reflexivity|]. intros o. apply OCP_set. apply OCP_done. Qed.
  Lemma abs_child_simple_local_pl : AbsChildLocalPL (abs_child_simple (T := T)).
  Proof. intros st sz a r K. unfold abs_child_simple. apply OCP_query; [reflexivity|]. intros o. apply OCP_set. apply OCP_done. Qed.
  Lemma block_pre_mode s i : bi_mode (block_pre s i) = bi_mode (T := T) i.
  Proof. reflexivity. Qed.
End Flow.
