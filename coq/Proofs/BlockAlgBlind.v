(* The block container algorithm as a resumption (Model/BlockAlg.v) satisfies the interface premises of the engine-level
   theorems of C05 / C06:
     block_alg_hidden_blind   HiddenBlind (Proofs/EngineBlind.v): it reads its children's styles through a view that
                              identifies all display:none styles
     block_alg_abs_blind      AbsBlind (Proofs/EngineAbs.v) for ab = "box-generating and position:absolute", oeq / leq =
                              equality up to content_size: on child-style lists that agree except at such children, the two
                              runs are bisimilar (same queries with the same inputs to every other child, answer for answer
                              up to content_size; the same stored layouts up to content_size; outputs equal up to content_size)
   for every input preprocessing `pre` and every absolute-item routine that only addresses the item's own node.
   Any `Num` instance; no arithmetic fact is used. *)
From Coq Require Import ZArith Bool List Lia.
From TV Require Import Num.Num Gen.BlockGen Model.Block Model.Engine Model.FiltersBase Gen.FiltersGen Model.ItemFilters Model.BlockAlg.
From TV Require Import Proofs.EngineMemo Proofs.EngineDirty Proofs.EngineHidden Proofs.EngineBlind Proofs.EngineAbs Proofs.BlockBlind Proofs.ItemFiltersBase Proofs.ItemFiltersHiddenBlock.
Import ListNotations.
Close Scope Z_scope.

Lemma Forall2_rev {A B} (R : A -> B -> Prop) l l' : Forall2 R l l' -> Forall2 R (rev l) (rev l').
Proof.
  induction 1 as [|x y l l' Hxy Hl IH]; cbn; [constructor|]. apply Forall2_app; [exact IH|constructor; [exact Hxy|constructor]].
Qed.

Lemma In_enumerate_from {A} (l : list A) : forall k c s, In (c, s) (g_enumerate_from k l) -> k <= c /\ nth_error l (c - k) = Some s.
Proof.
  induction l as [|x l IH]; intros k c s Hin; cbn in Hin; [contradiction|].
  destruct Hin as [E|Hin].
  - injection E as <- <-. split; [lia|]. replace (k - k) with 0 by lia. reflexivity.
  - destruct (IH _ _ _ Hin) as [Hle Hn]. split; [lia|].
    replace (c - k) with (Datatypes.S (c - Datatypes.S k)) by lia. exact Hn.
Qed.

(* ------------------------------------------------------------------ the premises are closed under dispatch on the node's own style *)

Lemma AbsBlind_dispatch (S In Out Lay : Type) (sel : S -> bool) (a1 a2 : S -> list S -> In -> Engine.Alg In Out Lay) ab oeq leq :
  AbsBlind S In Out Lay a1 ab oeq leq -> AbsBlind S In Out Lay a2 ab oeq leq ->
  AbsBlind S In Out Lay (fun s st i => if sel s then a1 s st i else a2 s st i) ab oeq leq.
Proof. intros H1 H2 s st st' i Hr. destruct (sel s); [apply H1|apply H2]; exact Hr. Qed.

Lemma HiddenBlind_dispatch (S In Out Lay : Type) (is_none sel : S -> bool) (a1 a2 : S -> list S -> In -> Engine.Alg In Out Lay) :
  HiddenBlind S In Out Lay is_none a1 -> HiddenBlind S In Out Lay is_none a2 ->
  HiddenBlind S In Out Lay is_none (fun s st i => if sel s then a1 s st i else a2 s st i).
Proof.
  intros (V1 & v1 & b1 & Hv1 & Hb1) (V2 & v2 & b2 & Hv2 & Hb2).
  exists (V1 * V2)%type, (fun s => (v1 s, v2 s)), (fun s vs i => if sel s then b1 s (map fst vs) i else b2 s (map snd vs) i).
  split.
  - intros a b Ha Hb. rewrite (Hv1 a b Ha Hb), (Hv2 a b Ha Hb). reflexivity.
  - intros s st i. rewrite !map_map. cbn [fst snd]. rewrite Hb1, Hb2.
    replace (map (fun x => v1 x) st) with (map v1 st) by reflexivity.
    replace (map (fun x => v2 x) st) with (map v2 st) by reflexivity. reflexivity.
Qed.

(* an algorithm that never looks at its children (a leaf) satisfies both premises *)
Lemma AbsBlind_leaf (S In Out Lay : Type) (leaf : S -> In -> Out) ab (oeq : Out -> Out -> Prop) leq :
  (forall o, oeq o o) -> AbsBlind S In Out Lay (fun s _ i => Engine.Ret In Out Lay (leaf s i)) ab oeq leq.
Proof. intros Hrefl s st st' i _. apply AB_ret. apply Hrefl. Qed.

Lemma HiddenBlind_leaf (S In Out Lay : Type) (is_none : S -> bool) (leaf : S -> In -> Out) :
  HiddenBlind S In Out Lay is_none (fun s _ i => Engine.Ret In Out Lay (leaf s i)).
Proof.
  exists unit, (fun _ => tt), (fun s _ i => Engine.Ret In Out Lay (leaf s i)). split; [reflexivity|reflexivity].
Qed.

Section Blind.
  Context {T : Type} `{Num T}.

  Notation BAlg := (Engine.Alg (BIn T) (ChildOut T) (BLayout T)).
  Notation Bis := (ABis (BIn T) (ChildOut T) (BLayout T) out_eq lay_eq).
  Notation is_absi a := (position_is_absolute (it_position (ai_item a))).
  Notation AItem := (@BlockAlg.AItem T).

  Lemma out_eq_refl (o : ChildOut T) : out_eq o o.
  Proof. repeat split. Qed.
  Lemma lay_eq_refl (l : BLayout T) : lay_eq l l.
  Proof. repeat split. Qed.

  (* ------------------------------------------------------------------ the items *)

  Definition mk_aitem (nis : BSize (option T)) (order : nat) (c : nat * BStyle T) (st : BStyle T) : AItem :=
    (fst c, st, generate_item st nis (Z.of_nat order)).

  Lemma alg_items_nf children nis :
    block_alg_items children nis = block_nf bs_bgm snd (mk_aitem nis) 0 (g_enumerate children).
  Proof. unfold block_alg_items. apply (block_generate_items_nf bs_position bs_bgm). Qed.

  (* every item: its node holds its style, which is box-generating, and the item's position is the style's *)
  Lemma alg_items_sound children nis a :
    In a (block_alg_items children nis) ->
    nth_error children (ai_node a) = Some (ai_style a) /\ bs_is_none (ai_style a) = false /\
    it_position (ai_item a) = st_position (ai_style a).
  Proof.
    rewrite alg_items_nf. unfold block_nf. intros Hin. apply in_map_iff in Hin. destruct Hin as [[o [c s]] [E Hin]].
    cbn [fst snd] in E. subst a. unfold mk_aitem, ai_node, ai_style, ai_item. cbn [fst snd].
    assert (Hin' : In (c, s) (filter (fun c0 : nat * BStyle T => negb (s_hidden bs_bgm (snd c0))) (g_enumerate children))).
    { apply (in_map snd) in Hin. rewrite enumerate_from_map_snd in Hin. exact Hin. }
    apply filter_In in Hin'. destruct Hin' as [Hin' Hv]. cbn [snd] in Hv.
    destruct (In_enumerate_from children 0 c s Hin') as [_ Hn]. replace (c - 0) with c in Hn by lia.
    split; [exact Hn|]. split; [|reflexivity].
    unfold bs_is_none. destruct (s_hidden bs_bgm s); [discriminate|reflexivity].
  Qed.

  (* styles a block parent may not distinguish (C06): box-generating absolute on both sides *)
  Definition va_rel (a b : BStyle T) : Prop := a = b \/ (bs_visible_absolute a = true /\ bs_visible_absolute b = true).
  (* ... (C05): display:none on both sides *)
  Definition none_rel (a b : BStyle T) : Prop := a = b \/ (bs_is_none a = true /\ bs_is_none b = true).

  Lemma va_not_none (s : BStyle T) : bs_visible_absolute s = true -> bs_is_none s = false.
  Proof. unfold bs_visible_absolute, s_visible_absolute, bs_is_none. destruct (s_hidden bs_bgm s); [discriminate|reflexivity]. Qed.
  Lemma va_absolute (s : BStyle T) : bs_visible_absolute s = true -> position_is_absolute (st_position s) = true.
  Proof.
    unfold bs_visible_absolute, s_visible_absolute. rewrite bs_absolute_position.
    destruct (s_hidden bs_bgm s); [discriminate|]. cbn. intros ->. reflexivity.
  Qed.

  Definition irel (a a' : AItem) : Prop :=
    a = a' \/ (ai_node a = ai_node a' /\ is_absi a = true /\ is_absi a' = true).

  Lemma alg_items_va_rel nis children children' : Forall2 va_rel children children' ->
    Forall2 irel (block_alg_items children nis) (block_alg_items children' nis).
  Proof.
    intros Hr. rewrite !alg_items_nf. unfold block_nf, g_enumerate. generalize 0 at 1 3. generalize 0.
    induction Hr as [|s s' l l' Hs Hl IH]; intros k n; [constructor|].
    cbn [g_enumerate_from filter snd]. destruct Hs as [<-|[A B]].
    - destruct (s_hidden bs_bgm s); cbn [negb g_enumerate_from map]; [apply IH|]. constructor; [left; reflexivity|apply IH].
    - pose proof (va_not_none _ A) as A'. pose proof (va_not_none _ B) as B'. unfold bs_is_none in A', B'.
      rewrite A', B'. cbn [negb g_enumerate_from map]. constructor; [|apply IH].
      right. unfold mk_aitem, ai_node, ai_item. cbn [fst snd generate_item it_position].
      split; [reflexivity|]. split; apply va_absolute; assumption.
  Qed.

  Lemma alg_items_none_rel nis children children' : Forall2 none_rel children children' ->
    block_alg_items children nis = block_alg_items children' nis.
  Proof.
    intros Hr. rewrite !alg_items_nf. unfold block_nf, g_enumerate. f_equal. generalize 0 at 1 3. generalize 0.
    induction Hr as [|s s' l l' Hs Hl IH]; intros k n; [reflexivity|].
    cbn [g_enumerate_from filter snd]. destruct Hs as [<-|[A B]].
    - destruct (s_hidden bs_bgm s); cbn [negb g_enumerate_from]; [apply IH|]. rewrite IH. reflexivity.
    - unfold bs_is_none in A, B. rewrite A, B. cbn [negb]. apply IH.
  Qed.

  Lemma hidden_flags_va_rel children children' : Forall2 va_rel children children' ->
    map (s_hidden bs_bgm) children = map (s_hidden bs_bgm) children'.
  Proof.
    induction 1 as [|s s' l l' Hs Hl IH]; [reflexivity|]. cbn [map]. rewrite IH. destruct Hs as [<-|[A B]]; [reflexivity|].
    pose proof (va_not_none _ A) as A'. pose proof (va_not_none _ B) as B'. unfold bs_is_none in A', B'. rewrite A', B'. reflexivity.
  Qed.

  Lemma hidden_flags_none_rel children children' : Forall2 none_rel children children' ->
    map (s_hidden bs_bgm) children = map (s_hidden bs_bgm) children'.
  Proof.
    induction 1 as [|s s' l l' Hs Hl IH]; [reflexivity|]. cbn [map]. rewrite IH. destruct Hs as [<-|[A B]]; [reflexivity|].
    unfold bs_is_none in A, B. rewrite A, B. reflexivity.
  Qed.

  (* ------------------------------------------------------------------ C05: HiddenBlind *)

  Lemma block_inner_alg_none_rel abs_child st children children' inp : Forall2 none_rel children children' ->
    block_inner_alg abs_child st children inp = block_inner_alg abs_child st children' inp.
  Proof.
    intros Hr. unfold block_inner_alg.
    rewrite (alg_items_none_rel _ children children' Hr), (hidden_flags_none_rel children children' Hr). reflexivity.
  Qed.

  Lemma bare_none_is_none : bs_is_none (bare_none_style (T := T)) = true.
  Proof. reflexivity. Qed.

  Lemma hidden_view_rel children : Forall2 none_rel children (map hidden_view children).
  Proof.
    induction children as [|s l IH]; [constructor|]. cbn [map]. constructor; [|exact IH].
    unfold hidden_view. destruct (bs_is_none s) eqn:E; [right; split; [exact E|apply bare_none_is_none]|left; reflexivity].
  Qed.

  Theorem block_alg_hidden_blind pre abs_child :
    HiddenBlind (BStyle T) (BIn T) (ChildOut T) (BLayout T) bs_is_none (block_alg pre abs_child).
  Proof.
    exists (BStyle T), hidden_view, (block_alg pre abs_child). split.
    - intros a b Ha Hb. unfold hidden_view. rewrite Ha, Hb. reflexivity.
    - intros s st i. unfold block_alg. apply block_inner_alg_none_rel. apply hidden_view_rel.
  Qed.

  (* ------------------------------------------------------------------ C06: AbsBlind *)

  Section Bisim.
    Variable m : nat -> bool.                 (* which children are out of flow (abmask) *)
    Definition IOK (a : AItem) : Prop := m (ai_node a) = is_absi a.

    Lemma irel_cases a a' : irel a a' -> IOK a ->
      (is_absi a = false /\ a' = a /\ m (ai_node a) = false) \/
      (is_absi a = true /\ is_absi a' = true /\ ai_node a' = ai_node a /\ m (ai_node a) = true).
    Proof.
      unfold IOK. intros [<-|(E & A & B)] Hm.
      - destruct (is_absi a) eqn:Ea; [right|left]; repeat split; assumption.
      - right. rewrite A in Hm. repeat split; try assumption. symmetry. exact E.
    Qed.

    (* determine_content_based_container_width *)
    Lemma content_width_bis aw items items' : Forall2 irel items items' -> Forall IOK items ->
      forall (k k' : T -> BAlg), (forall w, Bis m (k w) (k' w)) -> forall mx,
      Bis m (content_width_alg aw items mx k) (content_width_alg aw items' mx k').
    Proof.
      induction 1 as [|a a' l l' Ha Hl IH]; intros Hok k k' Hk mx; cbn [content_width_alg]; [apply Hk|].
      inversion Hok as [|? ? Hoka Hokl]; subst.
      destruct (irel_cases a a' Ha Hoka) as [(A & -> & M)|(A & A' & E & M)].
      - rewrite A. destruct (s_w (sz_maybe_clamp (it_size (ai_item a)) (it_min_size (ai_item a)) (it_max_size (ai_item a)))).
        + apply IH; assumption.
        + apply AB_query; [exact M|]. intros o o' (Hs & _). rewrite Hs. apply IH; assumption.
      - rewrite A, A'. apply IH; assumption.
    Qed.

    (* records of the in-flow pass: the items related, the records related as in Proofs/BlockBlind.v *)
    Definition arrel (x y : AItem * ItemResult T) : Prop := irel (fst x) (fst y) /\ rrel (snd x) (snd y).

    Lemma inflow_bis P items items' : Forall2 irel items items' -> Forall IOK items ->
      forall (k k' : State T -> list (AItem * ItemResult T) -> BAlg),
        (forall s s' ars ars', srel_st s s' -> Forall2 arrel ars ars' -> Forall IOK (map fst ars) -> Bis m (k s ars) (k' s' ars')) ->
      forall st st' acc acc', srel_st st st' -> Forall2 arrel acc acc' -> Forall IOK (map fst acc) ->
      Bis m (inflow_alg P st items acc k) (inflow_alg P st' items' acc' k').
    Proof.
      induction 1 as [|a a' l l' Ha Hl IH]; intros Hok k k' Hk st st' acc acc' Hs Hacc Hokacc; cbn [inflow_alg].
      - apply Hk; [exact Hs|apply Forall2_rev; exact Hacc|].
        rewrite map_rev. apply Forall_rev. exact Hokacc.
      - inversion Hok as [|? ? Hoka Hokl]; subst.
        destruct (irel_cases a a' Ha Hoka) as [(A & -> & M)|(A & A' & E & M)].
        + rewrite A. apply AB_query; [exact M|]. intros o o' Ho.
          destruct (step_rel P st st' (ai_item a) o o' A Hs Ho) as [S1 S2].
          apply AB_set; [exact M| |].
          * rewrite <- S2. unfold inflow_layout, lay_eq. cbn. repeat split.
          * apply IH; try assumption.
            -- constructor; [|exact Hacc]. split; [left; reflexivity|]. cbn [snd]. rewrite <- S2. left. split; [|reflexivity].
               rewrite step_inflow_flag, A. reflexivity.
            -- cbn [map fst]. constructor; assumption.
        + rewrite A, A'. rewrite (step_abs P st _ no_out A), (step_abs P st' _ no_out A'). cbn [fst snd].
          apply IH; try assumption.
          * constructor; [|exact Hacc]. split; cbn [fst snd].
            -- right. repeat split; try assumption. symmetry; exact E.
            -- right. cbn. split; [reflexivity|]. destruct Hs as (_ & -> & _). reflexivity.
          * cbn [map fst]. constructor; assumption.
    Qed.

    (* the absolute pass: arbitrary traffic with out-of-flow children on both sides *)
    Lemma only_child_bis c (K K' : BSize T -> BAlg) x x' : m c = true ->
      OnlyChild c K x -> OnlyChild c K' x' -> (forall v v', Bis m (K v) (K' v')) -> Bis m x x'.
    Proof.
      intros Mc Hx Hx' HK. induction Hx as [v|i k Hk IHk|l a Ha IHa].
      - induction Hx' as [v'|i' k' Hk' IHk'|l' a' Ha' IHa'].
        + apply HK.
        + apply AB_query_r; [exact Mc|]. exact IHk'.
        + apply AB_set_r; [exact Mc|]. exact IHa'.
      - apply AB_query_l; [exact Mc|]. exact IHk.
      - apply AB_set_l; [exact Mc|]. exact IHa.
    Qed.

    Lemma abs_pass_bis abs_child (Hloc : AbsChildLocal abs_child) st sz sz' ars ars' :
      Forall2 arrel ars ars' -> Forall IOK (map fst ars) ->
      forall (k k' : BSize T -> BAlg), (forall v v', Bis m (k v) (k' v')) -> forall content content',
      Bis m (abs_pass abs_child st sz ars content k) (abs_pass abs_child st sz' ars' content' k').
    Proof.
      induction 1 as [|[a r] [a' r'] l l' [Ha Hr] Hl IH]; intros Hok k k' Hk content content'; cbn [abs_pass]; [apply Hk|].
      cbn [map fst] in Hok. inversion Hok as [|? ? Hoka Hokl]; subst. cbn [fst snd] in Ha.
      destruct (irel_cases a a' Ha Hoka) as [(A & -> & M)|(A & A' & E & M)].
      - rewrite A. apply IH; assumption.
      - rewrite A, A'.
        eapply (only_child_bis (ai_node a)); [exact M|apply Hloc|rewrite <- E; apply Hloc|].
        intros v v'. apply IH; assumption.
    Qed.

    (* the hidden pass: the same canonical traffic with the display:none children, which are not out of flow *)
    Lemma hidden_pass_bis (k k' : BAlg) : Bis m k k' -> forall flags order,
      (forall i, nth_error flags i = Some true -> m (order + i) = false) ->
      Bis m (hidden_pass flags order k) (hidden_pass flags order k').
    Proof.
      intros Hk. induction flags as [|h flags IH]; intros order Hm; cbn [hidden_pass]; [exact Hk|].
      assert (Hm' : forall i, nth_error flags i = Some true -> m (Datatypes.S order + i) = false).
      { intros i Hi. replace (Datatypes.S order + i) with (order + Datatypes.S i) by lia. apply Hm. exact Hi. }
      destruct h; [|apply IH; exact Hm'].
      assert (M : m order = false) by (replace order with (order + 0) by lia; apply Hm; reflexivity).
      apply AB_query; [exact M|]. intros _ _ _. apply AB_set; [exact M|apply lay_eq_refl|]. apply IH. exact Hm'.
    Qed.
  End Bisim.

  Lemma finish_rel P s s' rs rs' : srel_st s s' ->
    io_height (inflow_finish P s rs) = io_height (inflow_finish P s' rs') /\
    io_first_set (inflow_finish P s rs) = io_first_set (inflow_finish P s' rs') /\
    io_last_set (inflow_finish P s rs) = io_last_set (inflow_finish P s' rs').
  Proof.
    intros (H1 & H2 & H3 & H4 & H5). unfold inflow_finish. cbn [io_height io_first_set io_last_set].
    rewrite H1, H3, H4. repeat split.
  Qed.

  Lemma arrel_rrel ars ars' : Forall2 arrel ars ars' -> Forall2 rrel (map snd ars) (map snd ars').
  Proof. induction 1 as [|x y l l' [_ Hr] Hl IH]; cbn [map]; constructor; assumption. Qed.

  Lemma abmask_items children nis :
    Forall (IOK (abmask (BStyle T) bs_visible_absolute children)) (block_alg_items children nis).
  Proof.
    apply Forall_forall. intros a Hin. destruct (alg_items_sound children nis a Hin) as (Hn & Hv & Hp).
    unfold IOK, abmask. rewrite Hn, Hp. unfold bs_visible_absolute, s_visible_absolute.
    unfold bs_is_none in Hv. rewrite Hv, bs_absolute_position. reflexivity.
  Qed.

  Lemma abmask_hidden children : forall i,
    nth_error (map (s_hidden bs_bgm) children) i = Some true -> abmask (BStyle T) bs_visible_absolute children (0 + i) = false.
  Proof.
    intros i Hi. cbn [Nat.add]. unfold abmask. rewrite nth_error_map in Hi.
    destruct (nth_error children i) as [s|]; [|reflexivity]. cbn in Hi. injection Hi as Hi.
    unfold bs_visible_absolute, s_visible_absolute. rewrite Hi. reflexivity.
  Qed.

  Theorem block_inner_alg_abs_bis abs_child (Hloc : AbsChildLocal abs_child) st children children' inp :
    Forall2 va_rel children children' ->
    Bis (abmask (BStyle T) bs_visible_absolute children)
        (block_inner_alg abs_child st children inp) (block_inner_alg abs_child st children' inp).
  Proof.
    intros Hr. set (m := abmask (BStyle T) bs_visible_absolute children).
    unfold block_inner_alg. rewrite <- (hidden_flags_va_rel children children' Hr).
    set (binp := mkInput (bi_known inp) (bi_parent inp) (bi_collapsible inp)).
    pose proof (alg_items_va_rel (block_node_inner_size st binp) children children' Hr) as Hitems.
    pose proof (abmask_items children (block_node_inner_size st binp)) as Hok. fold m in Hok.
    set (items := block_alg_items children (block_node_inner_size st binp)) in *.
    set (items' := block_alg_items children' (block_node_inner_size st binp)) in *.
    (* what follows the container width *)
    assert (Hcont : forall outer_w,
      Bis m
        (match is_compute_size (bi_mode inp), s_h (bi_known inp) with
         | true, Some h => Engine.Ret _ _ _ (from_outer_size (mkSize outer_w h))
         | _, _ =>
             let P := block_params st binp outer_w in
             inflow_alg P (init_state P) items []
               (fun stF ars =>
                  let io := inflow_finish P stF (map snd ars) in
                  let outer_h := block_outer_height st binp (io_height io) in
                  let sz := mkSize outer_w outer_h in
                  if is_compute_size (bi_mode inp) then Engine.Ret _ _ _ (from_outer_size sz)
                  else
                    abs_pass abs_child st sz ars sz_zero
                      (fun abs_content =>
                         hidden_pass (map (s_hidden bs_bgm) children) 0
                           (Engine.Ret _ _ _ (mkOut sz (sz_fmax (io_content_size io) abs_content)
                                       (fst (block_output_margins st binp io)) (snd (block_output_margins st binp io))
                                       (block_can_collapse_through st binp (io_results io))))))
         end)
        (match is_compute_size (bi_mode inp), s_h (bi_known inp) with
         | true, Some h => Engine.Ret _ _ _ (from_outer_size (mkSize outer_w h))
         | _, _ =>
             let P := block_params st binp outer_w in
             inflow_alg P (init_state P) items' []
               (fun stF ars =>
                  let io := inflow_finish P stF (map snd ars) in
                  let outer_h := block_outer_height st binp (io_height io) in
                  let sz := mkSize outer_w outer_h in
                  if is_compute_size (bi_mode inp) then Engine.Ret _ _ _ (from_outer_size sz)
                  else
                    abs_pass abs_child st sz ars sz_zero
                      (fun abs_content =>
                         hidden_pass (map (s_hidden bs_bgm) children) 0
                           (Engine.Ret _ _ _ (mkOut sz (sz_fmax (io_content_size io) abs_content)
                                       (fst (block_output_margins st binp io)) (snd (block_output_margins st binp io))
                                       (block_can_collapse_through st binp (io_results io))))))
         end)).
    { intros outer_w.
      assert (Hloop : Bis m
        (let P := block_params st binp outer_w in
         inflow_alg P (init_state P) items []
           (fun stF ars =>
              let io := inflow_finish P stF (map snd ars) in
              let outer_h := block_outer_height st binp (io_height io) in
              let sz := mkSize outer_w outer_h in
              if is_compute_size (bi_mode inp) then Engine.Ret _ _ _ (from_outer_size sz)
              else
                abs_pass abs_child st sz ars sz_zero
                  (fun abs_content =>
                     hidden_pass (map (s_hidden bs_bgm) children) 0
                       (Engine.Ret _ _ _ (mkOut sz (sz_fmax (io_content_size io) abs_content)
                                   (fst (block_output_margins st binp io)) (snd (block_output_margins st binp io))
                                   (block_can_collapse_through st binp (io_results io)))))))
        (let P := block_params st binp outer_w in
         inflow_alg P (init_state P) items' []
           (fun stF ars =>
              let io := inflow_finish P stF (map snd ars) in
              let outer_h := block_outer_height st binp (io_height io) in
              let sz := mkSize outer_w outer_h in
              if is_compute_size (bi_mode inp) then Engine.Ret _ _ _ (from_outer_size sz)
              else
                abs_pass abs_child st sz ars sz_zero
                  (fun abs_content =>
                     hidden_pass (map (s_hidden bs_bgm) children) 0
                       (Engine.Ret _ _ _ (mkOut sz (sz_fmax (io_content_size io) abs_content)
                                   (fst (block_output_margins st binp io)) (snd (block_output_margins st binp io))
                                   (block_can_collapse_through st binp (io_results io)))))))).
      { cbv zeta. apply inflow_bis; [exact Hitems|exact Hok| |apply srel_st_refl|constructor|constructor].
        intros s s' ars ars' Hs Hars Hokars.
        destruct (finish_rel (block_params st binp outer_w) s s' (map snd ars) (map snd ars') Hs) as (Eh & Ef & El).
        rewrite <- Eh.
        destruct (is_compute_size (bi_mode inp)); [apply AB_ret; apply out_eq_refl|].
        apply abs_pass_bis; [exact Hloc|exact Hars|exact Hokars|].
        intros v v'. apply hidden_pass_bis; [|apply abmask_hidden].
        apply AB_ret. unfold out_eq. cbn [co_size co_top co_bottom co_ct].
        unfold block_output_margins. rewrite <- Ef, <- El.
        split; [reflexivity|]. split; [reflexivity|]. split; [reflexivity|].
        unfold block_can_collapse_through. cbn [io_results inflow_finish].
        rewrite (ct_all_rel _ _ (arrel_rrel _ _ Hars)). reflexivity. }
      destruct (is_compute_size (bi_mode inp)) eqn:Ecs; [|exact Hloop].
      destruct (s_h (bi_known inp)); [apply AB_ret; apply out_eq_refl|exact Hloop]. }
    destruct (s_w (bi_known inp)) as [w|]; [apply Hcont|].
    apply content_width_bis; [exact Hitems|exact Hok|]. intros w. apply Hcont.
  Qed.

  Theorem block_alg_abs_blind pre abs_child : AbsChildLocal abs_child ->
    AbsBlind (BStyle T) (BIn T) (ChildOut T) (BLayout T) (block_alg pre abs_child) bs_visible_absolute out_eq lay_eq.
  Proof.
    intros Hloc s st st' i Hr. unfold block_alg. apply block_inner_alg_abs_bis; [exact Hloc|].
    clear -Hr. induction Hr as [|a b l l' Hab Hl IH]; constructor; [|exact IH].
    destruct Hab as [->|[A B]]; [left; reflexivity|right; split; assumption].
  Qed.

  (* the simple absolute-item routine is local: the parameter can be instantiated *)
  Lemma abs_child_simple_local : AbsChildLocal (abs_child_simple (T := T)).
  Proof.
    intros st sz a r K. unfold abs_child_simple. apply OC_query. intros o. apply OC_set. apply OC_done.
  Qed.

  (* ------------------------------------------------------------------ the resumption vs the kernel of Model/Block.v *)

  (* answering every query of the in-flow pass with `ans` (and dropping the stored layouts) *)
  Fixpoint answer (ans : nat -> BIn T -> ChildOut T) (fuel : nat) (a : BAlg) : option (ChildOut T) :=
    match fuel with
    | O => None
    | Datatypes.S f =>
        match a with
        | Engine.Ret _ _ _ o => Some o
        | Engine.Query _ _ _ c i k => answer ans f (k (ans c i))
        | Engine.SetLayout _ _ _ _ _ k => answer ans f k
        end
    end.

  (* the records handed to the continuation are those of `inflow_loop` on the items paired with the answers *)
  Definition answered (ans : nat -> BIn T -> ChildOut T) (P : Params T) (items : list AItem) : list (Item T * ChildOut T) :=
    map (fun a => (ai_item a, if is_absi a then no_out else ans (ai_node a) (child_input P (ai_item a)))) items.

  Lemma inflow_alg_is_inflow_loop ans P items : forall st acc k,
    exists fuel0, forall fuel,
      answer ans (fuel0 + fuel) (inflow_alg P st items acc k) =
      answer ans fuel (k (fst (inflow_loop P st (answered ans P items)))
                         (rev acc ++ combine items (snd (inflow_loop P st (answered ans P items))))).
  Proof.
    induction items as [|a items IH]; intros st acc k; cbn [inflow_alg answered map inflow_loop].
    - exists 0. intros fuel. cbn [fst snd combine]. rewrite app_nil_r. reflexivity.
    - destruct (is_absi a) eqn:A.
      + destruct (IH (fst (inflow_step P st (ai_item a) no_out)) ((a, snd (inflow_step P st (ai_item a) no_out)) :: acc) k) as [f0 Hf].
        exists f0. intros fuel. rewrite Hf. fold (answered ans P items).
        destruct (inflow_step P st (ai_item a) no_out) as [s1 r]. cbn [fst snd].
        destruct (inflow_loop P s1 (answered ans P items)) as [s2 rs]. cbn [fst snd combine rev]. rewrite <- app_assoc. reflexivity.
      + set (co := ans (ai_node a) (child_input P (ai_item a))).
        destruct (IH (fst (inflow_step P st (ai_item a) co)) ((a, snd (inflow_step P st (ai_item a) co)) :: acc) k) as [f0 Hf].
        exists (2 + f0). intros fuel. cbn [Nat.add answer]. fold co. rewrite Hf. fold (answered ans P items).
        destruct (inflow_step P st (ai_item a) co) as [s1 r]. cbn [fst snd].
        destruct (inflow_loop P s1 (answered ans P items)) as [s2 rs]. cbn [fst snd combine rev]. rewrite <- app_assoc. reflexivity.
  Qed.

  (* the input of the query to an in-flow item consists of the values its record carries (`ir_known`, `ir_avail_w`) -- the
     values C10's K2 / K3 compare with the known dimensions and available width the implementation passed to the child *)
  Lemma child_input_is_recorded P st (it : Item T) co :
    position_is_absolute (it_position it) = false ->
    bi_known (child_input P it) = ir_known (snd (inflow_step P st it co)) /\
    s_w (bi_avail (child_input P it)) = Definite (ir_avail_w (snd (inflow_step P st it co))) /\
    bi_parent (child_input P it) = mkSize (Some (p_outer_width P)) None /\ bi_mode (child_input P it) = PerformLayout.
  Proof.
    intros A. unfold inflow_step. rewrite A. cbv zeta. destruct (co_ct co); cbn; repeat split.
  Qed.

  (* ------------------------------------------------------------------ C05: SetsZeroOnHidden *)

  (* Layout::with_order(i) *)
  Definition b_zeroish (l : BLayout T) : Prop :=
    exists o, l = mkLay o zero zero sz_zero sz_zero sz_zero rect_zero rect_zero rect_zero.

  Section Zero.
    Variable st : list (BStyle T).
    Notation SZ := (SZH (BStyle T) (BIn T) (ChildOut T) (BLayout T) bs_is_none b_zeroish st).
    (* the item's node is not display:none *)
    Definition NOK (a : AItem) : Prop := forall sc, nth_error st (ai_node a) = Some sc -> bs_is_none sc = false.

    Lemma content_width_szh aw items : forall mx (k : T -> BAlg), (forall w, SZ (k w)) -> SZ (content_width_alg aw items mx k).
    Proof.
      induction items as [|a items IH]; intros mx k Hk; cbn [content_width_alg]; [apply Hk|].
      destruct (is_absi a); [apply IH; exact Hk|].
      destruct (s_w (sz_maybe_clamp (it_size (ai_item a)) (it_min_size (ai_item a)) (it_max_size (ai_item a)))).
      - apply IH; exact Hk.
      - apply SZH_query. intros o. apply IH; exact Hk.
    Qed.

    Lemma inflow_szh P items : Forall NOK items ->
      forall (k : State T -> list (AItem * ItemResult T) -> BAlg),
        (forall s ars, Forall NOK (map fst ars) -> SZ (k s ars)) ->
      forall s acc, Forall NOK (map fst acc) -> SZ (inflow_alg P s items acc k).
    Proof.
      induction 1 as [|a items Ha Hl IH]; intros k Hk s acc Hacc; cbn [inflow_alg].
      - apply Hk. rewrite map_rev. apply Forall_rev. exact Hacc.
      - destruct (is_absi a).
        + apply IH; [exact Hk|]. cbn [map fst]. constructor; assumption.
        + apply SZH_query. intros o. apply SZH_set.
          * intros sc Hn Hnone. rewrite (Ha sc Hn) in Hnone. discriminate.
          * apply IH; [exact Hk|]. cbn [map fst]. constructor; assumption.
    Qed.

    Lemma only_child_szh c (K : BSize T -> BAlg) x :
      (forall sc, nth_error st c = Some sc -> bs_is_none sc = false) -> OnlyChild c K x -> (forall v, SZ (K v)) -> SZ x.
    Proof.
      intros Hc Hx HK. induction Hx as [v|i k Hk IHk|l a Ha IHa]; [apply HK|apply SZH_query; exact IHk|].
      apply SZH_set; [|exact IHa]. intros sc Hn Hnone. rewrite (Hc sc Hn) in Hnone. discriminate.
    Qed.

    Lemma abs_pass_szh abs_child (Hloc : AbsChildLocal abs_child) s sz ars : Forall NOK (map fst ars) ->
      forall (k : BSize T -> BAlg), (forall v, SZ (k v)) -> forall content, SZ (abs_pass abs_child s sz ars content k).
    Proof.
      induction ars as [|[a r] ars IH]; intros Hok k Hk content; cbn [abs_pass]; [apply Hk|].
      cbn [map fst] in Hok. inversion Hok as [|? ? Ha Hl]; subst.
      destruct (is_absi a); [|apply IH; assumption].
      eapply only_child_szh; [exact Ha|apply Hloc|]. intros v. apply IH; assumption.
    Qed.

    Lemma hidden_pass_szh (k : BAlg) : SZ k -> forall flags order, SZ (hidden_pass flags order k).
    Proof.
      intros Hk. induction flags as [|h flags IH]; intros order; cbn [hidden_pass]; [exact Hk|].
      destruct h; [|apply IH]. apply SZH_query. intros _. apply SZH_set; [|apply IH].
      intros _ _ _. exists (Z.of_nat order). reflexivity.
    Qed.
  End Zero.

  Theorem block_alg_sets_zero_on_hidden pre abs_child : AbsChildLocal abs_child ->
    SetsZeroOnHidden (BStyle T) (BIn T) (ChildOut T) (BLayout T) bs_is_none (block_alg pre abs_child) b_zeroish.
  Proof.
    intros Hloc s st i. unfold block_alg, block_inner_alg.
    set (inp := pre s i). set (binp := mkInput (bi_known inp) (bi_parent inp) (bi_collapsible inp)).
    assert (Hok : Forall (NOK st) (block_alg_items st (block_node_inner_size s binp))).
    { apply Forall_forall. intros a Hin sc Hn. destruct (alg_items_sound st _ a Hin) as (Hn' & Hv & _).
      rewrite Hn' in Hn. injection Hn as <-. exact Hv. }
    assert (Hcont : forall outer_w,
      SZH (BStyle T) (BIn T) (ChildOut T) (BLayout T) bs_is_none b_zeroish st
        (match is_compute_size (bi_mode inp), s_h (bi_known inp) with
         | true, Some h => Engine.Ret _ _ _ (from_outer_size (mkSize outer_w h))
         | _, _ =>
             let P := block_params s binp outer_w in
             inflow_alg P (init_state P) (block_alg_items st (block_node_inner_size s binp)) []
               (fun stF ars =>
                  let io := inflow_finish P stF (map snd ars) in
                  let outer_h := block_outer_height s binp (io_height io) in
                  let sz := mkSize outer_w outer_h in
                  if is_compute_size (bi_mode inp) then Engine.Ret _ _ _ (from_outer_size sz)
                  else
                    abs_pass abs_child s sz ars sz_zero
                      (fun abs_content =>
                         hidden_pass (map (s_hidden bs_bgm) st) 0
                           (Engine.Ret _ _ _ (mkOut sz (sz_fmax (io_content_size io) abs_content)
                                       (fst (block_output_margins s binp io)) (snd (block_output_margins s binp io))
                                       (block_can_collapse_through s binp (io_results io))))))
         end)).
    { intros outer_w.
      assert (Hloop : SZH (BStyle T) (BIn T) (ChildOut T) (BLayout T) bs_is_none b_zeroish st
        (let P := block_params s binp outer_w in
         inflow_alg P (init_state P) (block_alg_items st (block_node_inner_size s binp)) []
           (fun stF ars =>
              let io := inflow_finish P stF (map snd ars) in
              let outer_h := block_outer_height s binp (io_height io) in
              let sz := mkSize outer_w outer_h in
              if is_compute_size (bi_mode inp) then Engine.Ret _ _ _ (from_outer_size sz)
              else
                abs_pass abs_child s sz ars sz_zero
                  (fun abs_content =>
                     hidden_pass (map (s_hidden bs_bgm) st) 0
                       (Engine.Ret _ _ _ (mkOut sz (sz_fmax (io_content_size io) abs_content)
                                   (fst (block_output_margins s binp io)) (snd (block_output_margins s binp io))
                                   (block_can_collapse_through s binp (io_results io)))))))).
      { cbv zeta. apply inflow_szh; [exact Hok| |constructor].
        intros s' ars Hars. destruct (is_compute_size (bi_mode inp)); [apply SZH_ret|].
        apply abs_pass_szh; [exact Hloc|exact Hars|]. intros v. apply hidden_pass_szh. apply SZH_ret. }
      destruct (is_compute_size (bi_mode inp)); [|exact Hloop].
      destruct (s_h (bi_known inp)); [apply SZH_ret|exact Hloop]. }
    destruct (s_w (bi_known inp)); [apply Hcont|]. apply content_width_szh. intros w. apply Hcont.
  Qed.
End Blind.
