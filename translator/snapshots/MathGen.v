(* GENERATED on every run by /verif/translator/gen_math.py from src/util/math.rs, src/util/resolve.rs,
   src/style/available_space.rs, src/geometry.rs -- do not edit. *)
From Coq Require Import List.
From TV Require Import Num.Num Model.Types.
Section MathGen.
Context {T : Type} `{Num T}.

(* ---- src/util/math.rs: MaybeMath.  Suffix = (type of self, type of the argument):
   oo Option/Option -> Option, of Option/f32 -> Option, fo f32/Option -> f32,
   af AvailableSpace/f32 -> AvailableSpace, ao AvailableSpace/Option -> AvailableSpace *)
Definition maybe_min_oo (self : option T) (rhs : option T) : option T :=
  (match self, rhs with
  | (Some l), (Some r) => (Some (fmin l r))
  | (Some _), None => self
  | None, (Some _) => None
  | None, None => None
  end).
Definition maybe_max_oo (self : option T) (rhs : option T) : option T :=
  (match self, rhs with
  | (Some l), (Some r) => (Some (fmax l r))
  | (Some _), None => self
  | None, (Some _) => None
  | None, None => None
  end).
Definition maybe_clamp_oo (self : option T) (min : option T) (max : option T) : option T :=
  (match self, min, max with
  | (Some base), (Some min), (Some max) => (Some (fmax (fmin base max) min))
  | (Some base), None, (Some max) => (Some (fmin base max))
  | (Some base), (Some min), None => (Some (fmax base min))
  | (Some _), None, None => self
  | None, _, _ => None
  end).
Definition maybe_add_oo (self : option T) (rhs : option T) : option T :=
  (match self, rhs with
  | (Some l), (Some r) => (Some (add l r))
  | (Some _), None => self
  | None, (Some _) => None
  | None, None => None
  end).
Definition maybe_sub_oo (self : option T) (rhs : option T) : option T :=
  (match self, rhs with
  | (Some l), (Some r) => (Some (sub l r))
  | (Some _), None => self
  | None, (Some _) => None
  | None, None => None
  end).
Definition maybe_min_of (self : option T) (rhs : T) : option T :=
  (option_map (fun val => (fmin val rhs)) self).
Definition maybe_max_of (self : option T) (rhs : T) : option T :=
  (option_map (fun val => (fmax val rhs)) self).
Definition maybe_clamp_of (self : option T) (min : T) (max : T) : option T :=
  (option_map (fun val => (fmax (fmin val max) min)) self).
Definition maybe_add_of (self : option T) (rhs : T) : option T :=
  (option_map (fun val => (add val rhs)) self).
Definition maybe_sub_of (self : option T) (rhs : T) : option T :=
  (option_map (fun val => (sub val rhs)) self).
Definition maybe_min_fo (self : T) (rhs : option T) : T :=
  (match rhs with
  | (Some val) => (fmin self val)
  | None => self
  end).
Definition maybe_max_fo (self : T) (rhs : option T) : T :=
  (match rhs with
  | (Some val) => (fmax self val)
  | None => self
  end).
Definition maybe_clamp_fo (self : T) (min : option T) (max : option T) : T :=
  (match min, max with
  | (Some min), (Some max) => (fmax (fmin self max) min)
  | None, (Some max) => (fmin self max)
  | (Some min), None => (fmax self min)
  | None, None => self
  end).
Definition maybe_add_fo (self : T) (rhs : option T) : T :=
  (match rhs with
  | (Some val) => (add self val)
  | None => self
  end).
Definition maybe_sub_fo (self : T) (rhs : option T) : T :=
  (match rhs with
  | (Some val) => (sub self val)
  | None => self
  end).
Definition maybe_min_af (self : AvailableSpace T) (rhs : T) : AvailableSpace T :=
  (match self with
  | (Definite val) => (Definite (fmin val rhs))
  | MinContent => (Definite rhs)
  | MaxContent => (Definite rhs)
  end).
Definition maybe_max_af (self : AvailableSpace T) (rhs : T) : AvailableSpace T :=
  (match self with
  | (Definite val) => (Definite (fmax val rhs))
  | MinContent => MinContent
  | MaxContent => MaxContent
  end).
Definition maybe_clamp_af (self : AvailableSpace T) (min : T) (max : T) : AvailableSpace T :=
  (match self with
  | (Definite val) => (Definite (fmax (fmin val max) min))
  | MinContent => MinContent
  | MaxContent => MaxContent
  end).
Definition maybe_add_af (self : AvailableSpace T) (rhs : T) : AvailableSpace T :=
  (match self with
  | (Definite val) => (Definite (add val rhs))
  | MinContent => MinContent
  | MaxContent => MaxContent
  end).
Definition maybe_sub_af (self : AvailableSpace T) (rhs : T) : AvailableSpace T :=
  (match self with
  | (Definite val) => (Definite (sub val rhs))
  | MinContent => MinContent
  | MaxContent => MaxContent
  end).
Definition maybe_min_ao (self : AvailableSpace T) (rhs : option T) : AvailableSpace T :=
  (match self, rhs with
  | (Definite val), (Some rhs) => (Definite (fmin val rhs))
  | (Definite val), None => (Definite val)
  | MinContent, (Some rhs) => (Definite rhs)
  | MinContent, None => MinContent
  | MaxContent, (Some rhs) => (Definite rhs)
  | MaxContent, None => MaxContent
  end).
Definition maybe_max_ao (self : AvailableSpace T) (rhs : option T) : AvailableSpace T :=
  (match self, rhs with
  | (Definite val), (Some rhs) => (Definite (fmax val rhs))
  | (Definite val), None => (Definite val)
  | MinContent, _ => MinContent
  | MaxContent, _ => MaxContent
  end).
Definition maybe_clamp_ao (self : AvailableSpace T) (min : option T) (max : option T) : AvailableSpace T :=
  (match self, min, max with
  | (Definite val), (Some min), (Some max) => (Definite (fmax (fmin val max) min))
  | (Definite val), None, (Some max) => (Definite (fmin val max))
  | (Definite val), (Some min), None => (Definite (fmax val min))
  | (Definite val), None, None => (Definite val)
  | MinContent, _, _ => MinContent
  | MaxContent, _, _ => MaxContent
  end).
Definition maybe_add_ao (self : AvailableSpace T) (rhs : option T) : AvailableSpace T :=
  (match self, rhs with
  | (Definite val), (Some rhs) => (Definite (add val rhs))
  | (Definite val), None => (Definite val)
  | MinContent, _ => MinContent
  | MaxContent, _ => MaxContent
  end).
Definition maybe_sub_ao (self : AvailableSpace T) (rhs : option T) : AvailableSpace T :=
  (match self, rhs with
  | (Definite val), (Some rhs) => (Definite (sub val rhs))
  | (Definite val), None => (Definite val)
  | MinContent, _ => MinContent
  | MaxContent, _ => MaxContent
  end).

(* ---- src/util/resolve.rs: MaybeResolve / ResolveOrZero (context = Option<f32>); the calc() arm is out of scope *)
Definition maybe_resolve_lp (self : LengthPercentage T) (context : option T) : option T :=
  match self with
  | LpLength v => (Some v)
  | LpPercent v => (option_map (fun dim => (mul dim v)) context)
  end.
Definition resolve_or_zero_lp (self : LengthPercentage T) (context : option T) : T :=
  (match (maybe_resolve_lp self context) with Some x => x | None => zero end).
Definition maybe_resolve_lpa (self : LengthPercentageAuto T) (context : option T) : option T :=
  match self with
  | Auto => None
  | Length v => (Some v)
  | Percent v => (option_map (fun dim => (mul dim v)) context)
  end.
Definition resolve_or_zero_lpa (self : LengthPercentageAuto T) (context : option T) : T :=
  (match (maybe_resolve_lpa self context) with Some x => x | None => zero end).
Definition maybe_resolve_dim (self : Dimension T) (context : option T) : option T :=
  match self with
  | Auto => None
  | Length v => (Some v)
  | Percent v => (option_map (fun dim => (mul dim v)) context)
  end.
Definition resolve_or_zero_dim (self : Dimension T) (context : option T) : T :=
  (match (maybe_resolve_dim self context) with Some x => x | None => zero end).

(* ---- src/style/available_space.rs *)
Definition avail_into_option (self : AvailableSpace T) : option T :=
  (match self with
  | (Definite value) => (Some value)
  | _ => None
  end).
Definition avail_maybe_set (self : AvailableSpace T) (value : option T) : AvailableSpace T :=
  (match value with
  | (Some value) => (Definite value)
  | None => self
  end).
Definition avail_map_definite_value (self : AvailableSpace T) (map_function : T -> T) : AvailableSpace T :=
  (match self with
  | (Definite value) => (Definite (map_function value))
  | _ => self
  end).
Definition avail_from_option (o : option T) : AvailableSpace T :=
  (match o with
  | (Some value) => (Definite value)
  | None => MaxContent
  end).

(* ---- src/geometry.rs *)
Definition maybe_apply_aspect_ratio (self : Size (option T)) (aspect_ratio : option T) : Size (option T) :=
  (match aspect_ratio with
  | (Some ratio) => (match (width self), (height self) with
  | (Some width_v), None => (mkSize (Some width_v) (Some (div width_v ratio)))
  | None, (Some height_v) => (mkSize (Some (mul height_v ratio)) (Some height_v))
  | _, _ => self
  end)
  | None => self
  end).
End MathGen.
