(* The scroll container of Model/BlockAbsExample.v (root > [A; P abs; Q abs; R abs container > [C]; F]) against the same tree with the absolute
   CONTAINER R replaced by a bare absolute leaf 7 x 9 -- every other child, the two other absolute leaves P and Q among them, unchanged --,
   under the engine `vh blocktree` runs (bl_memo block_pre abs_child_block), for the computed Example of Props/C06.v (audit, wave 7b).
   Definitions only.  `r_run` is a Notation on purpose: as a Definition the kernel unfolds bl_memo lazily at Qed and does not finish. *)
From Coq Require Import List Bool Arith NArith ZArith QArith.
From TV Require Import Num.Num Num.QNum Gen.BlockGen Model.Block Model.Engine Model.EngineRel Model.BlockAlg Model.BlockEngine Model.BlockAbs
  Model.BlockRoot Model.BlockEngineExample Model.BlockAbsExample.
Import ListNotations.

Definition r_bare : sk ExSpec :=
  SNode _ (exr_style false PAbsolute OVisible OVisible 0 auto4 (mkSize (len 7) (len 9)) auto2 auto2 zero4 0 0, EFixed (qz 0) (qz 0)) [].
Definition exr_spec' : sk ExSpec :=
  match exr_spec with SNode _ s [a; p; q; _; f] => SNode _ s [a; p; q; r_bare; f] | t => t end.
Definition exr_tree' : sk (BNode XQ) := sk_map ex_node exr_spec'.
(* the input compute_root_layout hands to the root *)
Definition r_in : BIn XQ := root_bin (block_root_known (bn_style (sstyle _ exr_tree)) exr_avail) exr_avail.
(* a NOTATION, not a Definition: with a Definition the kernel re-check at Qed unfolds bl_memo lazily and does not finish *)
Notation r_run t := (bl_memo block_pre abs_child_block ex_fuel (bl_fresh t) r_in) (only parsing).
Definition r_boxes (t : Engine.tree (BNode XQ) (BIn XQ) (ChildOut XQ) (BLayout XQ)) : list (XQ * XQ * XQ * XQ) :=
  map (fun l => (bl_x l, bl_y l, s_w (bl_size l), s_h (bl_size l))) (lays (BNode XQ) (BIn XQ) (ChildOut XQ) (BLayout XQ) t).
(* both runs succeed; root size 212 x 52 on both sides; content sizes 203 x 69 vs 203 x 51 (differ); boxes in pre-order: the stored boxes
   of A, P, Q (positions 1-3) and of F (last) coincide and are the listed ones; R's subtree [R; C] vs the bare leaf differ *)
Definition r_check : bool :=
  match r_run exr_tree, r_run exr_tree' with
  | Some (o, t), Some (o', t') =>
      bsz_eqb (co_size o) (mkSize (qz 212) (qz 52)) && bsz_eqb (co_size o') (mkSize (qz 212) (qz 52))
      && bsz_eqb (co_content_size o) (mkSize (qz 203) (qz 69)) && bsz_eqb (co_content_size o') (mkSize (qz 203) (qz 51))
      && list_eqb box_eqb (r_boxes t)
           [box 0 0 0 0; box 6 10 192 24; (qz 11, Fin (7 # 2), qz 172, qz 34); box 163 35 40 16; (Fin (103 # 2), qz 41, qz 56, qz 28);
            box 3 3 52 22; box 6 34 96 12]
      && list_eqb box_eqb (r_boxes t')
           [box 0 0 0 0; box 6 10 192 24; (qz 11, Fin (7 # 2), qz 172, qz 34); box 163 35 40 16; box 6 34 7 9; box 6 34 96 12]
  | _, _ => false
  end.

