(* Executable driver of the REAL-CACHE whole-tree correspondence of the block engine: decodes a case printed by
   `vh blocktree cases <seed> <n> <start> real` (same `C` line as the exact-key mode: Model/BlockEngineRun.v), runs
   compute_root_layout + `blr_memo block_pre abs_child_block` (Model/BlockEngineReal.v = the generic engine of Model/EngineReal.v
   with the real cache of src/tree/cache.rs) over the bit-exact F32 instance, starting from a fresh tree, once per pass on the same
   tree, and encodes what the harness prints after `R` (implementation run WITHOUT the exact-key hook):
   per pass, per node, pre-order: the 21 layout integers, then the number of compute_cached_layout calls on the node in that pass, the
   number of those answered by the cache, and the number of measure-function calls for the node.
   The model's output is preceded by two integers the implementation cannot observe: the number of LOSSY hits of the case (ghost:
   the answering entry was stored for another complete input -- complete inputs compared with the REPRESENTATION equality of binary32,
   Model/TaffyKey.v f32_seqb, so that "no lossy hit" is the premise of C01_real_block_equals_exact_when_no_lossy_hit_partial with no
   premise about the key left) and the number of evaluations.  [-1] = out of fuel. *)
From Coq Require Import ZArith NArith Bool List.
From TV Require Import Num.Num Num.F32.
From TV Require Import Gen.BlockGen Model.Block Model.Engine Model.BlockAlg Model.BlockEngine Model.BlockAbs Model.BlockRoot
  Model.EngineReal Model.BlockEngineReal Model.BlockEngineRun Model.TaffyKey.
Import ListNotations.
Open Scope Z_scope.

Definition enc_stats (n : stats) : list Z := [Z.of_N (n_query n); Z.of_N (n_hit n); Z.of_N (n_meas n)].

Fixpoint enc_nodes (ls : list (BLayout f32)) (ns : list stats) : list Z :=
  match ls, ns with
  | l :: ls', n :: ns' => enc_layout l ++ enc_stats n ++ enc_nodes ls' ns'
  | _, _ => []
  end.

(* chains of the C16 corpus are up to 17 nodes deep *)
Definition REAL_FUEL : nat := 24.

Definition sumN (f : stats -> N) (ps : list (list (BLayout f32) * list stats)) : Z :=
  Z.of_N (fold_right N.add 0%N (map (fun p => fold_right N.add 0%N (map f (snd p))) ps)).

Definition run_real_with (abs_child : @AbsChild f32) (c : list Z) : list Z :=
  match c with
  | np :: rest0 =>
      let '(avails, rest) := dec_avails (Z.to_nat np) rest0 in
      let t := fst (dec_tree REAL_FUEL rest) in
      match blr_layout_passes f32_seqb block_pre abs_child REAL_FUEL t avails with
      | Some ps => sumN n_lossy ps :: sumN n_eval ps :: flat_map (fun p => enc_nodes (fst p) (snd p)) ps
      | None => [-1]
      end
  | _ => []
  end.

Definition run_case_real (c : list Z) : list Z := run_real_with abs_child_block c.
