(* GENERATED on every run by /verif/translator/gen_gridtracks.py from src/compute/grid/track_sizing.rs, src/compute/grid/explicit_grid.rs, src/style/alignment.rs -- do not edit. *)
From Coq Require Import NArith QArith List.
Import ListNotations.
Open Scope N_scope.
(* const THRESHOLD of distribute_space_up_to_limits / of distribute_item_space_to_base_size_inner *)
Definition DISTRIBUTE_THRESHOLD_Q : Q := (1 # 100).
Definition BASE_SIZE_THRESHOLD_Q : Q := (1 # 1000000).
(* shape of one grid-template entry: Single(_) | Repeat(Count(count), tracks) | Repeat(AutoFit, tracks) | Repeat(AutoFill, tracks);
   tracks_len = tracks.len() *)
Inductive entry_shape := ShSingle | ShRepeatCount (count tracks_len : N) | ShRepeatAutoFit (tracks_len : N) | ShRepeatAutoFill (tracks_len : N).
(* compute_explicit_grid_size_in_axis: non_auto_repeating_track_count = sum of this over the template *)
Definition explicit_size_entry_count (e : entry_shape) : N :=
  match e with
  | ShSingle => 1
  | ShRepeatCount count tracks_len => (count * tracks_len)
  | ShRepeatAutoFit tracks_len => 0
  | ShRepeatAutoFill tracks_len => 0
  end.
(* initialize_grid_tracks, auto-repeat arm: non_auto_repeated_track_count = sum of this over the template *)
Definition init_tracks_entry_count (e : entry_shape) : N :=
  match e with
  | ShSingle => 1
  | ShRepeatCount count tracks_len => (count * tracks_len)
  | ShRepeatAutoFit tracks_len => 0
  | ShRepeatAutoFill tracks_len => 0
  end.
(* initialize_grid_tracks: auto_repeated_track_count = (counts.explicit - non_auto_repeated_track_count) as usize *)
Definition auto_repeated_track_count (counts_explicit non_auto_repeated_track_count : N) : N :=
  counts_explicit - non_auto_repeated_track_count.
Inductive align_content := AStart | AEnd | AFlexStart | AFlexEnd | ACenter | AStretch | ASpaceBetween | ASpaceEvenly | ASpaceAround.
Definition all_align_content : list align_content := [AStart; AEnd; AFlexStart; AFlexEnd; ACenter; AStretch; ASpaceBetween; ASpaceEvenly; ASpaceAround].
