(* A concrete tree for the non-vacuity examples of the whole-tree theorems about the REAL absolute-item routine
   (Model/BlockAbs.v abs_child_block) and the root glue (Model/BlockRoot.v), and boolean checks of whole layout passes.
   Definitions only.

     root      block container, content-box, width 200, padding 5, border 1, overflow-y scroll with a 8 px scrollbar
       A       leaf, content-box, height 20, padding 2, margin-top 4, measure Fixed 30 x 10          (Model/BlockEngineExample.v)
       P       leaf, position absolute, content-box, left 10, right 20, top 5 %, height 30, padding 2: width from the insets
       Q       leaf, position absolute, border-box, right 0, bottom 0, 40 x 20, margin-left auto, max-height 16
       R       block container, position absolute, content-box, left 25 %, width 50, padding 3, margin-top 7 (static y)
         C     leaf, content-box, width 50, padding 1, measure Echo 40                                (Model/BlockEngineExample.v)
       F       leaf, border-box, width 50 %, height 12                                                (Model/BlockEngineExample.v) *)
From Coq Require Import QArith ZArith Bool List.
From TV Require Import Num.Num Num.QNum.
From TV Require Model.Types Model.Common Model.Leaf Model.Scale.
From TV Require Import Gen.BlockGen Model.Block Model.Engine Model.EngineRel Model.BlockAlg Model.ScaleBlock Model.BlockEngine Model.BlockEngineRel
  Model.BlockEngineExample Model.BlockAbs Model.BlockRoot.
Import ListNotations.

Definition pct (n d : Z) : LPA XQ := Pct (Fin (Qmake n (Z.to_pos d))).
Definition exr_style (content_box : bool) (pos : BPosition) (ox oy : BOverflow) (sbw : Z) (inset : BRect (LPA XQ)) (sz mn mx : BSize (LPA XQ))
           (margin : BRect (LPA XQ)) (pad bor : Z) : BStyle XQ :=
  mkStyle DBlock false content_box ox oy (qz sbw) pos inset sz mn mx None margin (rect4 pad) (rect4 bor) TAAuto.
Definition zero4 : BRect (LPA XQ) := rect4 0.

Definition exr_P : sk ExSpec :=
  SNode _ (exr_style true PAbsolute OVisible OVisible 0 (mkRect (len 10) (len 20) (pct 1 20) Auto) (mkSize Auto (len 30)) auto2 auto2
                     zero4 2 0, EFixed (qz 0) (qz 0)) [].
Definition exr_Q : sk ExSpec :=
  SNode _ (exr_style false PAbsolute OVisible OVisible 0 (mkRect Auto (len 0) Auto (len 0)) (mkSize (len 40) (len 20)) auto2
                     (mkSize Auto (len 16)) (mkRect Auto (len 0) (len 0) (len 0)) 0 0, EFixed (qz 0) (qz 0)) [].
Definition exr_R : sk ExSpec :=
  SNode _ (exr_style true PAbsolute OVisible OVisible 0 (mkRect (pct 1 4) Auto Auto Auto) (mkSize (len 50) Auto) auto2 auto2
                     (mkRect (len 0) (len 0) (len 7) (len 0)) 3 0, EFixed (qz 0) (qz 0)) [ex_C].
Definition exr_spec : sk ExSpec :=
  SNode _ (exr_style true PRelative OVisible OScroll 8 auto4 (mkSize (len 200) Auto) auto2 auto2 zero4 5 1, EFixed (qz 0) (qz 0))
        [ex_A; exr_P; exr_Q; exr_R; ex_F].

Definition exr_tree : sk (BNode XQ) := sk_map ex_node exr_spec.
Definition exr_tree_scaled (k : Q) : sk (BNode XQ) := sk_map ex_node (sk_map (ex_spec_scale k) exr_spec).
Definition exr_avail : BSize (Avail XQ) := mkSize (Definite (qz 300)) (Definite (qz 400)).
Definition exr_avail_max : BSize (Avail XQ) := mkSize MaxContent MinContent.
Definition bavs_scale (k : Q) (a : BSize (Avail XQ)) : BSize (Avail XQ) := bsz_map (bav_scale k) a.

(* a whole layout pass (compute_root_layout + memo on a fresh tree) with the real absolute routine *)
Definition exr_pass (t : sk (BNode XQ)) (a : BSize (Avail XQ)) : option (list (BLayout XQ)) :=
  block_layout_pass block_pre abs_child_block ex_fuel t a.

Definition lay_box (l : BLayout XQ) : XQ * XQ * XQ * XQ := (bl_x l, bl_y l, s_w (bl_size l), s_h (bl_size l)).
(* (x, y, width, height) of every node in pre-order are those listed *)
Definition exr_boxes (t : sk (BNode XQ)) (a : BSize (Avail XQ)) (bs : list (XQ * XQ * XQ * XQ)) : bool :=
  match exr_pass t a with Some ls => list_eqb box_eqb (map lay_box ls) bs | None => false end.
(* both passes succeed; every stored layout of the second is that of the first multiplied by k *)
Definition exr_scaled_ok (k : Q) (t t' : sk (BNode XQ)) (a : BSize (Avail XQ)) : bool :=
  match exr_pass t a, exr_pass t' (bavs_scale k a) with
  | Some ls, Some ls' => list_eqb blay_eqb (map (blay_scale k) ls) ls'
  | _, _ => false
  end.
(* both passes succeed with the same stored layouts (as numbers) *)
Definition exr_same_ok (t t' : sk (BNode XQ)) (a : BSize (Avail XQ)) : bool :=
  match exr_pass t a, exr_pass t' a with
  | Some ls, Some ls' => list_eqb blay_eqb ls ls'
  | _, _ => false
  end.
(* two passes in a row on the same tree *)
Definition exr_two_passes_scaled_ok (k : Q) (t t' : sk (BNode XQ)) (a b : BSize (Avail XQ)) : bool :=
  match block_layout_passes block_pre abs_child_block ex_fuel t [a; b],
        block_layout_passes block_pre abs_child_block ex_fuel t' [bavs_scale k a; bavs_scale k b] with
  | Some lss, Some lss' => list_eqb (list_eqb blay_eqb) (map (map (blay_scale k)) lss) lss'
  | _, _ => false
  end.

