(* C06 for what `vh taffytree` really evaluates (audit, wave 7b): Model/TaffyRoot.v taffy_compute_root and taffy_passes, not just one memoised
   query: the keyed asim is kept by a whole layout pass and by any sequence of passes, for every tree whose root is not a box-generating
   absolute node. *)
From Coq Require Import ZArith Bool List.
From TV Require Import Num.Num Model.Common Model.Leaf Model.Root Model.FlexAlgBase Model.BlockFlexEngine Model.TaffyEngine Model.TaffyRoot.
From TV Require Import Model.Engine Proofs.EngineAbsKey Proofs.TaffyEngine Proofs.TaffyRootBlind Proofs.FlexAlgBlind.
From TV Require Model.Block Model.BlockAlg.
Import ListNotations.
Close Scope Z_scope.
Close Scope N_scope.

Section TaffyRootAbs.
  Context {T : Type} `{Num T}.
  Variable teq : T -> T -> bool.
  Variable disp : TStyle T -> nat -> TKind.
  Variable pre : Block.BStyle T -> BlockAlg.BIn T -> BlockAlg.BIn T.
  Variable abs_child : @BlockAlg.AbsChild T.
  Variable leaf : TStyle T -> FIn T -> LayoutOutput T.
  Hypothesis Hloc : BlockAlg.AbsChildLocal abs_child.

  Notation tree := (Engine.tree (TStyle T) (FIn T) (LayoutOutput T) (FLay T)).
  Notation asimT := (asim (TStyle T) (FIn T) (LayoutOutput T) (FLay T) t_visible_absolute _ t_lines fout_eq flay_eq).
  Notation croot := (taffy_compute_root teq disp pre abs_child leaf).
  Notation passes := (taffy_passes teq disp pre abs_child leaf).

  Lemma asim_root_style (t t' : tree) : asimT t t' -> t_visible_absolute (style_of _ _ _ _ t) = false -> style_of _ _ _ _ t' = style_of _ _ _ _ t.
  Proof. intros Hs Hn. destruct Hs; cbn in *; [congruence|reflexivity]. Qed.

  Lemma root_layout_eq (st : TStyle T) avail (o o' : LayoutOutput T) : fout_eq o o' -> flay_eq (taffy_root_layout st avail o) (taffy_root_layout st avail o').
  Proof.
    intros (Hsz & _). unfold taffy_root_layout, flay_of_layout, root_assemble, flay_eq. cbn. rewrite Hsz. repeat split; reflexivity.
  Qed.

  (* one layout pass (any two fuels) *)
  Theorem compute_root_asim f f' (t t' : tree) avail u u' :
    asimT t t' -> t_visible_absolute (style_of _ _ _ _ t) = false ->
    croot f t avail = Some u -> croot f' t' avail = Some u' -> asimT u u'.
  Proof.
    intros Hs Hn. unfold taffy_compute_root. rewrite (asim_root_style t t' Hs Hn). unfold taffy_memo.
    destruct (Engine.memo _ _ _ _ _ _ _ _ _ _ f t _) as [[o t1]|] eqn:E; [|discriminate].
    destruct (Engine.memo _ _ _ _ _ _ _ _ _ _ f' t' _) as [[o' t1']|] eqn:E'; [|discriminate].
    intros E1 E2. injection E1 as <-. injection E2 as <-.
    destruct (memo_asimK (TStyle T) (FIn T) (LayoutOutput T) (FLay T) qi_mode (fin_eqb_with teq) t_is_none output_HIDDEN (f_with_order 0)
                         (taffy_algo disp pre abs_child leaf) t_visible_absolute _ t_lines fout_eq flay_eq
                         (fout_eq_refl (T := T)) (flay_eq_refl (T := T)) (taffy_algo_abs_blind_keyed disp pre abs_child leaf Hloc)
                         f f' t t' _ o t1 o' t1' Hs E E') as [Ht Ho].
    apply asim_set_lay; [exact Ht|]. apply root_layout_eq. apply Ho. exact Hn.
  Qed.

  (* any sequence of passes that succeed on both sides *)
  Theorem passes_asim f f' avails : forall (t t' : tree) ls u ls' u',
    asimT t t' -> t_visible_absolute (style_of _ _ _ _ t) = false ->
    passes f t avails = Some (ls, u) -> passes f' t' avails = Some (ls', u') -> asimT u u'.
  Proof.
    induction avails as [|a rest IH]; intros t t' ls u ls' u' Hs Hn; cbn [taffy_passes].
    - intros E E'. injection E as _ <-. injection E' as _ <-. exact Hs.
    - destruct (croot f t a) as [v|] eqn:E; [|discriminate]. destruct (croot f' t' a) as [v'|] eqn:E'; [|discriminate].
      destruct (passes f v rest) as [[l1 w]|] eqn:P; [|discriminate]. destruct (passes f' v' rest) as [[l1' w']|] eqn:P'; [|discriminate].
      intros X X'. injection X as _ <-. injection X' as _ <-.
      apply (IH v v' l1 w l1' w'); [eapply compute_root_asim; eauto| |exact P|exact P'].
      rewrite (compute_root_style teq disp pre abs_child leaf f t v a E). exact Hn.
  Qed.
End TaffyRootAbs.
