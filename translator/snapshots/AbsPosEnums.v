(* GENERATED on every run by translator/gen_abspos.py -- do not edit. *)
From Coq Require Import Bool List.
Import ListNotations.
Inductive AlignItems := AI_Start | AI_End | AI_FlexStart | AI_FlexEnd | AI_Center | AI_Baseline | AI_Stretch.
Definition AlignItems_eqb (a b : AlignItems) : bool :=
  match a, b with
  | AI_Start, AI_Start => true
  | AI_End, AI_End => true
  | AI_FlexStart, AI_FlexStart => true
  | AI_FlexEnd, AI_FlexEnd => true
  | AI_Center, AI_Center => true
  | AI_Baseline, AI_Baseline => true
  | AI_Stretch, AI_Stretch => true
  | _, _ => false
  end.
Definition AlignItems_all : list AlignItems := [AI_Start; AI_End; AI_FlexStart; AI_FlexEnd; AI_Center; AI_Baseline; AI_Stretch].
Inductive AlignContent := AC_Start | AC_End | AC_FlexStart | AC_FlexEnd | AC_Center | AC_Stretch | AC_SpaceBetween | AC_SpaceEvenly | AC_SpaceAround.
Definition AlignContent_eqb (a b : AlignContent) : bool :=
  match a, b with
  | AC_Start, AC_Start => true
  | AC_End, AC_End => true
  | AC_FlexStart, AC_FlexStart => true
  | AC_FlexEnd, AC_FlexEnd => true
  | AC_Center, AC_Center => true
  | AC_Stretch, AC_Stretch => true
  | AC_SpaceBetween, AC_SpaceBetween => true
  | AC_SpaceEvenly, AC_SpaceEvenly => true
  | AC_SpaceAround, AC_SpaceAround => true
  | _, _ => false
  end.
Definition AlignContent_all : list AlignContent := [AC_Start; AC_End; AC_FlexStart; AC_FlexEnd; AC_Center; AC_Stretch; AC_SpaceBetween; AC_SpaceEvenly; AC_SpaceAround].
Inductive Position := Pos_Relative | Pos_Absolute.
Definition Position_eqb (a b : Position) : bool :=
  match a, b with
  | Pos_Relative, Pos_Relative => true
  | Pos_Absolute, Pos_Absolute => true
  | _, _ => false
  end.
Definition Position_all : list Position := [Pos_Relative; Pos_Absolute].
Inductive FlexDirection := FD_Row | FD_Column | FD_RowReverse | FD_ColumnReverse.
Definition FlexDirection_eqb (a b : FlexDirection) : bool :=
  match a, b with
  | FD_Row, FD_Row => true
  | FD_Column, FD_Column => true
  | FD_RowReverse, FD_RowReverse => true
  | FD_ColumnReverse, FD_ColumnReverse => true
  | _, _ => false
  end.
Definition FlexDirection_all : list FlexDirection := [FD_Row; FD_Column; FD_RowReverse; FD_ColumnReverse].
Inductive BoxSizing := BS_BorderBox | BS_ContentBox.
Definition BoxSizing_eqb (a b : BoxSizing) : bool :=
  match a, b with
  | BS_BorderBox, BS_BorderBox => true
  | BS_ContentBox, BS_ContentBox => true
  | _, _ => false
  end.
Definition BoxSizing_all : list BoxSizing := [BS_BorderBox; BS_ContentBox].
Definition fd_is_row (d : FlexDirection) : bool := match d with FD_Row | FD_RowReverse => true | _ => false end.
