(* C04 -- homogeneity of the three absolutely-positioned kernels abs_block / abs_flex / abs_grid (Model/AbsPos.v over the
   generated Gen/AbsPosGen.v) over the exact instance XQ, k > 0: related container geometry, resolved child inputs and a
   homogeneous measure oracle give related location / size / margin.  Also the *_resolve step from the style. *)
From Coq Require Import ZArith NArith QArith Qabs Lqa Bool List Lia.
From TV Require Import Num.Num Num.QNum Gen.AbsPosEnums Model.AbsPosBase Gen.AbsPosGen Model.AbsPos Model.ScaleAbs Proofs.ScalePrim.

Lemma arel_opt_unwrap_or {A} (R : A -> A -> Prop) a a' d d' :
  op_rel R a a' -> R d d' -> R (opt_unwrap_or a d) (opt_unwrap_or a' d').
Proof. destruct a, a'; cbn; intros; try contradiction; assumption. Qed.
Lemma arel_opt_or {A} (R : A -> A -> Prop) a a' b b' :
  op_rel R a a' -> op_rel R b b' -> op_rel R (opt_or a b) (opt_or a' b').
Proof. destruct a, a'; cbn; intros; try contradiction; assumption. Qed.
Lemma arel_opt_is_some {A} (R : A -> A -> Prop) a a' : op_rel R a a' -> opt_is_some a' = opt_is_some a.
Proof. destruct a, a'; cbn; intros; try contradiction; reflexivity. Qed.
Lemma arel_opt_is_none {A} (R : A -> A -> Prop) a a' : op_rel R a a' -> opt_is_none a' = opt_is_none a.
Proof. destruct a, a'; cbn; intros; try contradiction; reflexivity. Qed.
Lemma asz_rel_w {A} (R : A -> A -> Prop) s s' : asz_rel R s s' -> R (s_width s) (s_width s').
Proof. intros [H _]. exact H. Qed.
Lemma asz_rel_h {A} (R : A -> A -> Prop) s s' : asz_rel R s s' -> R (s_height s) (s_height s').
Proof. intros [_ H]. exact H. Qed.
Lemma dl_u8 n : dl (u8_as_f32 n) (u8_as_f32 n).
Proof. apply dl_refl. Qed.

Ltac atbl :=
  intros;
  repeat match goal with
  | H : op_rel _ ?a ?a' |- _ => is_var a; is_var a'; destruct a, a'; cbn [op_rel] in H; try contradiction
  | H : dim_rel _ ?a ?a' |- _ => is_var a; is_var a'; destruct a, a'; cbn [dim_rel] in H; try contradiction
  end;
  cbn [op_rel option_map opt_unwrap_or
       maybe_min_OO maybe_max_OO maybe_clamp_OOO maybe_add_OO maybe_sub_OO
       maybe_min_OF maybe_max_OF maybe_clamp_OFF maybe_add_OF maybe_sub_OF
       maybe_min_FO maybe_max_FO maybe_clamp_FOO maybe_add_FO maybe_sub_FO
       dim_maybe_resolve dim_resolve_to_option dim_resolve_or_zero];
  try exact I; auto 6 with sc.

Section AbsTables.
  Variable k : Q.
  Hypothesis Hk : 0 < k.
  Local Hint Resolve Hk : sc.
  Notation L := (sc k).
  Notation O := (op_rel (sc k)).

  Lemma rel_maybe_min_OO a a' b b' : O a a' -> O b b' -> O (maybe_min_OO a b) (maybe_min_OO a' b').
  Proof. atbl. Qed.
  Lemma rel_maybe_max_OO a a' b b' : O a a' -> O b b' -> O (maybe_max_OO a b) (maybe_max_OO a' b').
  Proof. atbl. Qed.
  Lemma rel_maybe_clamp_OOO a a' b b' c c' : O a a' -> O b b' -> O c c' -> O (maybe_clamp_OOO a b c) (maybe_clamp_OOO a' b' c').
  Proof. atbl. Qed.
  Lemma rel_maybe_add_OO a a' b b' : O a a' -> O b b' -> O (maybe_add_OO a b) (maybe_add_OO a' b').
  Proof. atbl. Qed.
  Lemma rel_maybe_sub_OO a a' b b' : O a a' -> O b b' -> O (maybe_sub_OO a b) (maybe_sub_OO a' b').
  Proof. atbl. Qed.
  Lemma rel_maybe_min_OF a a' b b' : O a a' -> L b b' -> O (maybe_min_OF a b) (maybe_min_OF a' b').
  Proof. atbl. Qed.
  Lemma rel_maybe_max_OF a a' b b' : O a a' -> L b b' -> O (maybe_max_OF a b) (maybe_max_OF a' b').
  Proof. atbl. Qed.
  Lemma rel_maybe_clamp_OFF a a' b b' c c' : O a a' -> L b b' -> L c c' -> O (maybe_clamp_OFF a b c) (maybe_clamp_OFF a' b' c').
  Proof. atbl. Qed.
  Lemma rel_maybe_add_OF a a' b b' : O a a' -> L b b' -> O (maybe_add_OF a b) (maybe_add_OF a' b').
  Proof. atbl. Qed.
  Lemma rel_maybe_sub_OF a a' b b' : O a a' -> L b b' -> O (maybe_sub_OF a b) (maybe_sub_OF a' b').
  Proof. atbl. Qed.
  Lemma rel_maybe_min_FO a a' b b' : L a a' -> O b b' -> L (maybe_min_FO a b) (maybe_min_FO a' b').
  Proof. atbl. Qed.
  Lemma rel_maybe_max_FO a a' b b' : L a a' -> O b b' -> L (maybe_max_FO a b) (maybe_max_FO a' b').
  Proof. atbl. Qed.
  Lemma rel_maybe_clamp_FOO a a' b b' c c' : L a a' -> O b b' -> O c c' -> L (maybe_clamp_FOO a b c) (maybe_clamp_FOO a' b' c').
  Proof. atbl. Qed.
  Lemma rel_maybe_add_FO a a' b b' : L a a' -> O b b' -> L (maybe_add_FO a b) (maybe_add_FO a' b').
  Proof. atbl. Qed.
  Lemma rel_maybe_sub_FO a a' b b' : L a a' -> O b b' -> L (maybe_sub_FO a b) (maybe_sub_FO a' b').
  Proof. atbl. Qed.

  Lemma rel_dim_maybe_resolve d d' c c' : dim_rel k d d' -> O c c' -> O (dim_maybe_resolve d c) (dim_maybe_resolve d' c').
  Proof. atbl. Qed.
  Lemma rel_dim_resolve_to_option d d' c c' : dim_rel k d d' -> L c c' -> O (dim_resolve_to_option d c) (dim_resolve_to_option d' c').
  Proof. atbl. Qed.
  Lemma rel_dim_resolve_or_zero d d' c c' : dim_rel k d d' -> O c c' -> L (dim_resolve_or_zero d c) (dim_resolve_or_zero d' c').
  Proof. atbl. Qed.

  Lemma rel_size_maybe_apply_aspect_ratio s s' r r' :
    asz_rel O s s' -> op_rel dl r r' -> asz_rel O (size_maybe_apply_aspect_ratio s r) (size_maybe_apply_aspect_ratio s' r').
  Proof.
    destruct s as [w h], s' as [w' h']. unfold asz_rel. cbn [s_width s_height]. intros [Hw Hh] Hr.
    destruct r, r'; cbn [op_rel] in Hr; try contradiction; unfold size_maybe_apply_aspect_ratio; cbn [s_width s_height].
    - destruct w, w', h, h'; cbn [op_rel] in *; try contradiction; cbn [s_width s_height op_rel]; auto 6 with sc.
    - split; assumption.
  Qed.
End AbsTables.

(* ------------------------------------------------------------------------------------------------------------ *)
(** * Structural tactic *)

Ltac unfold_alifts :=
  cbv beta delta [size_map rect_map line_map point_map size_zip2 size_zip3 size_set_width size_set_height
    rect_horizontal_components rect_vertical_components point_to_size size_unwrap_or size_or
    rect_add size_sub size_add rect_horizontal_axis_sum rect_vertical_axis_sum rect_sum_axes line_sum size_zero size_f32_max
    rect_main_start rect_main_end rect_cross_start rect_cross_end size_main size_cross point_main point_cross
    block_scrollbar_gutter asz_rel arc_rel apt_rel aln_rel] in *;
  cbn [s_width s_height r_left r_right r_top r_bottom p_x p_y l_start l_end ib_horizontal ib_vertical fst snd] in *.

Ltac asplit_hyps := repeat match goal with H : _ /\ _ |- _ => destruct H end.

Ltac ahm_step k Hk :=
  first [ eassumption |
  lazymatch goal with
  | |- _ /\ _ => split
  | |- True => exact I
  | |- ?x = ?x => reflexivity
  | |- sc _ zero zero => apply sc_zero
  | |- sc _ (add _ _) (add _ _) => apply sc_add
  | |- sc _ (sub _ _) (sub _ _) => apply sc_sub
  | |- sc _ (neg _) (neg _) => apply sc_neg
  | |- sc _ (fmax _ _) (fmax _ _) => apply (sc_max k); [exact Hk | | ]
  | |- sc _ (fmin _ _) (fmin _ _) => apply (sc_min k); [exact Hk | | ]
  | |- sc _ (fabs _) (fabs _) => apply (sc_abs k); [exact Hk | ]
  | |- sc _ (div _ _) (div _ _) => apply (sc_div_dl k); [exact Hk | | ]
  | |- sc _ (mul _ _) (mul _ _) => apply (sc_mul_dl k); [exact Hk | | ]
  | |- dl (of_Z _) (of_Z _) => apply dl_of_Z
  | |- dl (u8_as_f32 ?n) (u8_as_f32 ?n') =>
      let H := fresh "Hn" in assert (H : n' = n); [ | rewrite H; apply dl_u8 ]
  | |- op_rel _ (Some _) (Some _) => apply rel_Some
  | |- op_rel _ None None => exact I
  | |- ?R (opt_unwrap_or _ _) (opt_unwrap_or _ _) => eapply arel_opt_unwrap_or
  | |- op_rel _ (opt_or _ _) (opt_or _ _) => apply arel_opt_or
  | |- op_rel _ (option_map _ _) (option_map _ _) => eapply rel_option_map; [ | intros ? ? ?]
  | |- ?R (s_width _) (s_width _) => apply (asz_rel_w R)
  | |- ?R (s_height _) (s_height _) => apply (asz_rel_h R)
  | |- asz_rel _ (mkSize _ _) (mkSize _ _) => split; cbn [s_width s_height]
  | |- asz_rel _ (size_maybe_apply_aspect_ratio _ _) (size_maybe_apply_aspect_ratio _ _) =>
      apply (rel_size_maybe_apply_aspect_ratio k Hk)
  | |- op_rel _ (maybe_min_OO _ _) (maybe_min_OO _ _) => apply (rel_maybe_min_OO k Hk)
  | |- op_rel _ (maybe_max_OO _ _) (maybe_max_OO _ _) => apply (rel_maybe_max_OO k Hk)
  | |- op_rel _ (maybe_clamp_OOO _ _ _) (maybe_clamp_OOO _ _ _) => apply (rel_maybe_clamp_OOO k Hk)
  | |- op_rel _ (maybe_add_OO _ _) (maybe_add_OO _ _) => apply (rel_maybe_add_OO k)
  | |- op_rel _ (maybe_sub_OO _ _) (maybe_sub_OO _ _) => apply (rel_maybe_sub_OO k)
  | |- op_rel _ (maybe_min_OF _ _) (maybe_min_OF _ _) => apply (rel_maybe_min_OF k Hk)
  | |- op_rel _ (maybe_max_OF _ _) (maybe_max_OF _ _) => apply (rel_maybe_max_OF k Hk)
  | |- op_rel _ (maybe_clamp_OFF _ _ _) (maybe_clamp_OFF _ _ _) => apply (rel_maybe_clamp_OFF k Hk)
  | |- op_rel _ (maybe_add_OF _ _) (maybe_add_OF _ _) => apply (rel_maybe_add_OF k)
  | |- op_rel _ (maybe_sub_OF _ _) (maybe_sub_OF _ _) => apply (rel_maybe_sub_OF k)
  | |- sc _ (maybe_min_FO _ _) (maybe_min_FO _ _) => apply (rel_maybe_min_FO k Hk)
  | |- sc _ (maybe_max_FO _ _) (maybe_max_FO _ _) => apply (rel_maybe_max_FO k Hk)
  | |- sc _ (maybe_clamp_FOO _ _ _) (maybe_clamp_FOO _ _ _) => apply (rel_maybe_clamp_FOO k Hk)
  | |- sc _ (maybe_add_FO _ _) (maybe_add_FO _ _) => apply (rel_maybe_add_FO k)
  | |- sc _ (maybe_sub_FO _ _) (maybe_sub_FO _ _) => apply (rel_maybe_sub_FO k)
  | |- op_rel _ (dim_maybe_resolve _ _) (dim_maybe_resolve _ _) => apply (rel_dim_maybe_resolve k Hk)
  | |- op_rel _ (dim_resolve_to_option _ _) (dim_resolve_to_option _ _) => apply (rel_dim_resolve_to_option k Hk)
  | |- sc _ (dim_resolve_or_zero _ _) (dim_resolve_or_zero _ _) => apply (rel_dim_resolve_or_zero k Hk)
  | |- gtb _ _ = gtb _ _ => apply (sc_gtb k); [exact Hk | | ]
  | |- geb _ _ = geb _ _ => apply (sc_geb k); [exact Hk | | ]
  | |- ltb _ _ = ltb _ _ => apply (sc_ltb k); [exact Hk | | ]
  | |- leb _ _ = leb _ _ => apply (sc_leb k); [exact Hk | | ]
  | |- eqb _ _ = eqb _ _ => apply (sc_eqb k); [exact Hk | | ]
  | |- opt_is_some _ = opt_is_some _ => eapply arel_opt_is_some
  | |- opt_is_none _ = opt_is_none _ => eapply arel_opt_is_none
  | |- orb _ _ = orb _ _ => apply f_equal2
  | |- andb _ _ = andb _ _ => apply f_equal2
  | |- negb _ = negb _ => apply f_equal
  | |- N.add _ _ = N.add _ _ => apply f_equal2
  | |- N.eqb _ _ = N.eqb _ _ => apply f_equal2
  | |- N.ltb _ _ = N.ltb _ _ => apply f_equal2
  | |- b2n _ = b2n _ => apply f_equal
  | |- @eq _ (match ?o' with Some x' => _ | None => _ end) (match ?o with Some x => _ | None => _ end) =>
      let H := fresh "Hm" in
      assert (H : op_rel (sc k) o o'); [ | destruct o, o'; cbn [op_rel] in H; try contradiction ]
  | |- _ (match ?o with Some x => _ | None => _ end) (match ?o' with Some x' => _ | None => _ end) =>
      let H := fresh "Hm" in
      assert (H : op_rel (sc k) o o'); [ | destruct o, o'; cbn [op_rel] in H; try contradiction ]
  | |- _ (match ?s with mkSize _ _ => _ end) (match ?s' with mkSize _ _ => _ end) =>
      let H := fresh "Hs" in
      first [ assert (H : asz_rel (op_rel (sc k)) s s') | assert (H : asz_rel (sc k) s s') ];
      [ | destruct s, s'; destruct H as [? ?]; cbn [s_width s_height] in * ]
  | |- _ (if ?c then _ else _) (if ?c then _ else _) => destruct c
  | |- _ (if ?c then _ else _) (if ?c' then _ else _) =>
      let H := fresh "Hc" in assert (H : c' = c); [ | rewrite H; destruct c ]
  | |- _ (match ?e with AC_Start => _ | AC_End => _ | AC_FlexStart => _ | AC_FlexEnd => _ | AC_Center => _ | AC_Stretch => _
                      | AC_SpaceBetween => _ | AC_SpaceEvenly => _ | AC_SpaceAround => _ end) _ => destruct e
  | |- _ (match ?e with AI_Start => _ | AI_End => _ | AI_FlexStart => _ | AI_FlexEnd => _ | AI_Center => _ | AI_Baseline => _
                      | AI_Stretch => _ end) _ => destruct e
  end ].
Ltac ahm k Hk := asplit_hyps; repeat (ahm_step k Hk).

Section AbsKernels.
  Variable k : Q.
  Hypothesis Hk : 0 < k.
  Notation L := (sc k).
  Notation O := (op_rel (sc k)).

  Ltac absin_hyps H :=
    destruct H as (Har & Hmg & Hin & Hpd & Hbd & Hpb & Hsz & Hmn & Hmx & Eas & Ejs & Eps).

  (** * block *)
  Lemma rel_block_abs_area sz sz' b b' g g' :
    asz_rel L sz sz' -> arc_rel L b b' -> apt_rel L g g' ->
    asz_rel L (fst (block_abs_area sz b g)) (fst (block_abs_area sz' b' g')) /\
    apt_rel L (snd (block_abs_area sz b g)) (snd (block_abs_area sz' b' g')).
  Proof. intros. unfold block_abs_area. unfold_alifts. ahm k Hk. Qed.

  Lemma rel_block_known a a' o o' sp sp' i i' :
    asz_rel L a a' -> apt_rel L o o' -> apt_rel L sp sp' -> absin_rel k i i' ->
    asz_rel O (block_known a o sp i) (block_known a' o' sp' i').
  Proof.
    intros Ha Ho Hsp Hi. absin_hyps Hi. unfold block_known. cbv beta iota zeta. unfold_alifts. ahm k Hk.
  Qed.

  Lemma rel_block_final_size a a' o o' sp sp' i i' m m' :
    asz_rel L a a' -> apt_rel L o o' -> apt_rel L sp sp' -> absin_rel k i i' -> asz_rel L m m' ->
    asz_rel L (block_final_size a o sp i m) (block_final_size a' o' sp' i' m').
  Proof.
    intros Ha Ho Hsp Hi Hm. absin_hyps Hi. unfold block_final_size. cbv beta iota zeta. unfold_alifts. ahm k Hk.
  Qed.

  Lemma rel_block_place a a' o o' sp sp' i i' m m' :
    asz_rel L a a' -> apt_rel L o o' -> apt_rel L sp sp' -> absin_rel k i i' -> asz_rel L m m' ->
    absout_rel k (block_place a o sp i m) (block_place a' o' sp' i' m').
  Proof.
    intros Ha Ho Hsp Hi Hm.
    pose proof (rel_block_final_size a a' o o' sp sp' i i' m m' Ha Ho Hsp Hi Hm) as [Hfw Hfh].
    absin_hyps Hi. unfold block_place, absout_rel. cbv beta iota zeta.
    cbn [o_location o_size o_margin]. unfold_alifts. ahm k Hk.
  Qed.

  Lemma rel_block_child a a' o o' sp sp' i i' m m' :
    asz_rel L a a' -> apt_rel L o o' -> apt_rel L sp sp' -> absin_rel k i i' -> abs_measure_homog k m m' ->
    absout_rel k (block_child a o sp i m) (block_child a' o' sp' i' m').
  Proof.
    intros Ha Ho Hsp Hi Hm. unfold block_child. apply rel_block_place; try assumption.
    apply Hm. apply rel_block_known; assumption.
  Qed.

  Lemma rel_block_resolve a a' o o' st st' :
    asz_rel L a a' -> apt_rel L o o' -> absstyle_rel k st st' -> absin_rel k (block_resolve a o st) (block_resolve a' o' st').
  Proof.
    intros Ha Ho (Hsz & Hmn & Hmx & Hin & Hmg & Hpd & Hbd & Har & Ebs & Eas & Ejs & Eps).
    unfold block_resolve, absin_rel. cbv beta iota zeta.
    cbn [ai_aspect_ratio ai_margin ai_inset ai_padding ai_border ai_pb_sum ai_size ai_min0 ai_max ai_align_self ai_justify_self ai_position].
    rewrite Ebs. destruct (BoxSizing_eqb (st_box_sizing st) BS_ContentBox); unfold_alifts; ahm k Hk.
  Qed.

  (* the kernel of Model/AbsPos.v: container geometry as the Layout reports it *)
  Theorem abs_block_homog ct ct' sp sp' i i' m m' :
    container_rel k ct ct' -> apt_rel L sp sp' -> absin_rel k i i' -> abs_measure_homog k m m' ->
    absout_rel k (abs_block ct sp i m) (abs_block ct' sp' i' m').
  Proof.
    intros (Hs & Hb & Hp & Hg) Hsp Hi Hm. unfold abs_block, block_area.
    destruct (rel_block_abs_area _ _ _ _ _ _ Hs Hb Hg) as [H1 H2].
    apply rel_block_child; assumption.
  Qed.
  Theorem abs_block_style_homog ct ct' sp sp' st st' m m' :
    container_rel k ct ct' -> apt_rel L sp sp' -> absstyle_rel k st st' -> abs_measure_homog k m m' ->
    absout_rel k (abs_block_style ct sp st m) (abs_block_style ct' sp' st' m').
  Proof.
    intros Hc Hsp Hst Hm. unfold abs_block_style. apply abs_block_homog; try assumption.
    destruct Hc as (Hs & Hb & Hp & Hg). unfold block_area.
    destruct (rel_block_abs_area _ _ _ _ _ _ Hs Hb Hg) as [H1 H2]. apply rel_block_resolve; assumption.
  Qed.

  (** * flex *)
  Ltac flexc_hyps H := destruct H as (Hcs & Hcb & Hcg & Hci & Edir & Erow & Ewr & Ejc & Eai).

  Lemma rel_flex_known c c' i i' : flexc_rel k c c' -> absin_rel k i i' -> asz_rel O (flex_known c i) (flex_known c' i').
  Proof.
    intros Hc Hi. flexc_hyps Hc. absin_hyps Hi. unfold flex_known. cbv beta iota zeta. unfold_alifts. ahm k Hk.
  Qed.
  Lemma rel_flex_final_size c c' i i' m m' :
    flexc_rel k c c' -> absin_rel k i i' -> asz_rel L m m' -> asz_rel L (flex_final_size c i m) (flex_final_size c' i' m').
  Proof.
    intros Hc Hi Hm. flexc_hyps Hc. absin_hyps Hi. unfold flex_final_size. cbv beta iota zeta. unfold_alifts. ahm k Hk.
  Qed.
  Lemma rel_flex_place c c' i i' m m' :
    flexc_rel k c c' -> absin_rel k i i' -> asz_rel L m m' -> absout_rel k (flex_place c i m) (flex_place c' i' m').
  Proof.
    intros Hc Hi Hm. pose proof (rel_flex_final_size c c' i i' m m' Hc Hi Hm) as [Hfw Hfh].
    (* make the equal enum / flag fields of the two runs the same variables (cheaper than rewriting in the unfolded goal) *)
    destruct c as [cs cb cg ci dir row wr jc ai0], c' as [cs' cb' cg' ci' dir' row' wr' jc' ai0'].
    destruct i as [ar mg ins pd bd pb sz mn mx als jus pos], i' as [ar' mg' ins' pd' bd' pb' sz' mn' mx' als' jus' pos'].
    unfold flexc_rel, absin_rel in Hc, Hi.
    cbn [fc_container_size fc_border fc_scrollbar_gutter fc_content_box_inset fc_dir fc_is_row fc_is_wrap_reverse
         fc_justify_content fc_align_items ai_aspect_ratio ai_margin ai_inset ai_padding ai_border ai_pb_sum ai_size ai_min0
         ai_max ai_align_self ai_justify_self ai_position] in Hc, Hi.
    flexc_hyps Hc. absin_hyps Hi. subst dir' row' wr' jc' ai0' als' jus' pos'.
    unfold flex_place, absout_rel.
    cbn [fc_container_size fc_border fc_scrollbar_gutter fc_content_box_inset fc_dir fc_is_row fc_is_wrap_reverse
         fc_justify_content fc_align_items ai_aspect_ratio ai_margin ai_inset ai_padding ai_border ai_pb_sum ai_size ai_min0
         ai_max ai_align_self ai_justify_self ai_position].
    destruct row; cbv beta iota zeta; cbn [o_location o_size o_margin].
    all: destruct (fd_is_row dir) eqn:Ed.
    all: unfold_alifts; rewrite ?Ed.
    all: ahm k Hk.
  Qed.

  Lemma rel_flex_resolve c c' st st' :
    flexc_rel k c c' -> absstyle_rel k st st' -> absin_rel k (flex_resolve c st) (flex_resolve c' st').
  Proof.
    intros Hc (Hsz & Hmn & Hmx & Hin & Hmg & Hpd & Hbd & Har & Ebs & Eas & Ejs & Eps). flexc_hyps Hc.
    unfold flex_resolve, absin_rel. cbv beta iota zeta.
    cbn [ai_aspect_ratio ai_margin ai_inset ai_padding ai_border ai_pb_sum ai_size ai_min0 ai_max ai_align_self ai_justify_self ai_position].
    rewrite Ebs. destruct (BoxSizing_eqb (st_box_sizing st) BS_ContentBox); unfold_alifts; ahm k Hk.
  Qed.

  Theorem abs_flex_homog c c' i i' m m' :
    flexc_rel k c c' -> absin_rel k i i' -> abs_measure_homog k m m' ->
    absout_rel k (abs_flex c i m) (abs_flex c' i' m').
  Proof.
    intros Hc Hi Hm. unfold abs_flex, flex_child. apply rel_flex_place; try assumption.
    apply Hm. apply rel_flex_known; assumption.
  Qed.
  Lemma rel_flex_constants ct ct' dir wr jc ais :
    container_rel k ct ct' -> flexc_rel k (flex_constants ct dir wr jc ais) (flex_constants ct' dir wr jc ais).
  Proof.
    intros (Hs & Hb & Hp & Hg). unfold flex_constants, flexc_rel.
    cbn [fc_container_size fc_border fc_scrollbar_gutter fc_content_box_inset fc_dir fc_is_row fc_is_wrap_reverse fc_justify_content fc_align_items].
    unfold_alifts. ahm k Hk.
  Qed.
  Theorem abs_flex_style_homog c c' st st' m m' :
    flexc_rel k c c' -> absstyle_rel k st st' -> abs_measure_homog k m m' ->
    absout_rel k (abs_flex_style c st m) (abs_flex_style c' st' m').
  Proof.
    intros Hc Hst Hm. unfold abs_flex_style. apply abs_flex_homog; try assumption. apply rel_flex_resolve; assumption.
  Qed.

  (** * grid *)
  Lemma rel_grid_abs_area sz sz' b b' g g' :
    asz_rel L sz sz' -> arc_rel L b b' -> apt_rel L g g' -> arc_rel L (grid_abs_area sz b g) (grid_abs_area sz' b' g').
  Proof. intros. unfold grid_abs_area. unfold_alifts. ahm k Hk. Qed.

  Lemma rel_grid_known ga ga' cas bs bs' i i' :
    arc_rel L ga ga' -> L bs bs' -> absin_rel k i i' -> asz_rel O (grid_known ga cas bs i) (grid_known ga' cas bs' i').
  Proof.
    intros Hga Hbs Hi. absin_hyps Hi. unfold grid_known. cbv beta iota zeta. rewrite Eas, Ejs, Eps.
    rewrite (arel_opt_is_some _ _ _ (proj1 Hsz)), (arel_opt_is_some _ _ _ (proj2 Hsz)), (arel_opt_is_some _ _ _ Har).
    unfold_alifts. ahm k Hk.
  Qed.

  Lemma rel_grid_final_size ga ga' cas bs bs' i i' m m' :
    arc_rel L ga ga' -> L bs bs' -> absin_rel k i i' -> asz_rel L m m' ->
    asz_rel L (grid_final_size ga cas bs i m) (grid_final_size ga' cas bs' i' m').
  Proof.
    intros Hga Hbs Hi Hm. absin_hyps Hi. unfold grid_final_size. cbv beta iota zeta. rewrite Eas, Ejs, Eps.
    rewrite (arel_opt_is_some _ _ _ (proj1 Hsz)), (arel_opt_is_some _ _ _ (proj2 Hsz)), (arel_opt_is_some _ _ _ Har).
    unfold_alifts. ahm k Hk.
  Qed.

  Lemma rel_grid_align ga ga' al rs rs' pos ins ins' mg mg' bs bs' :
    aln_rel L ga ga' -> L rs rs' -> aln_rel O ins ins' -> aln_rel O mg mg' -> L bs bs' ->
    L (fst (grid_align_item_within_area ga al rs pos ins mg bs)) (fst (grid_align_item_within_area ga' al rs' pos ins' mg' bs')) /\
    aln_rel L (snd (grid_align_item_within_area ga al rs pos ins mg bs)) (snd (grid_align_item_within_area ga' al rs' pos ins' mg' bs')).
  Proof.
    intros Hga Hrs Hins Hmg Hbs. unfold grid_align_item_within_area. cbv beta iota zeta. cbn [fst snd].
    unfold_alifts. ahm k Hk.
  Qed.
End AbsKernels.

Section AbsGrid.
  Variable k : Q.
  Hypothesis Hk : 0 < k.
  Notation L := (sc k).
  Notation O := (op_rel (sc k)).
  Ltac absin_hyps H :=
    destruct H as (Har & Hmg & Hin & Hpd & Hbd & Hpb & Hsz & Hmn & Hmx & Eas & Ejs & Eps).

  Lemma rel_grid_place ga ga' cas bs bs' i i' m m' :
    arc_rel L ga ga' -> L bs bs' -> absin_rel k i i' -> asz_rel L m m' ->
    absout_rel k (grid_place ga cas bs i m) (grid_place ga' cas bs' i' m').
  Proof.
    intros Hga Hbs Hi Hm.
    pose proof (rel_grid_final_size k Hk ga ga' cas bs bs' i i' m m' Hga Hbs Hi Hm) as Hfs.
    absin_hyps Hi. unfold grid_place. cbv beta iota zeta. rewrite Eas, Ejs, Eps.
    rewrite (arel_opt_is_some _ _ _ (proj1 Hsz)), (arel_opt_is_some _ _ _ (proj2 Hsz)), (arel_opt_is_some _ _ _ Har).
    destruct (grid_final_size ga cas bs i m) as [fw fh], (grid_final_size ga' cas bs' i' m') as [fw' fh'].
    destruct Hfs as [Hfw Hfh]. cbn [s_width s_height] in Hfw, Hfh.
    destruct Hga as (Hg1 & Hg2 & Hg3 & Hg4). destruct Hin as (Hi1 & Hi2 & Hi3 & Hi4). destruct Hmg as (Hm1 & Hm2 & Hm3 & Hm4).
    match goal with |- context [grid_align_item_within_area (mkLine (r_left ga) (r_right ga)) ?al fw ?pos ?ins ?mg zero] =>
      pose proof (rel_grid_align k Hk (mkLine (r_left ga) (r_right ga)) (mkLine (r_left ga') (r_right ga')) al fw fw' pos ins
                   (rect_horizontal_components (ai_inset i')) mg (rect_horizontal_components (ai_margin i')) zero zero) as HX
    end.
    match goal with |- context [grid_align_item_within_area (mkLine (r_top ga) (r_bottom ga)) ?al fh ?pos ?ins ?mg bs] =>
      pose proof (rel_grid_align k Hk (mkLine (r_top ga) (r_bottom ga)) (mkLine (r_top ga') (r_bottom ga')) al fh fh' pos ins
                   (rect_vertical_components (ai_inset i')) mg (rect_vertical_components (ai_margin i')) bs bs') as HY
    end.
    assert (HX' := HX (conj Hg1 Hg2) Hfw (conj Hi1 Hi2) (conj Hm1 Hm2) (sc_zero k)). clear HX.
    assert (HY' := HY (conj Hg3 Hg4) Hfh (conj Hi3 Hi4) (conj Hm3 Hm4) Hbs). clear HY.
    match type of HX' with sc _ (fst ?p) (fst ?p') /\ _ => destruct p as [vx xm], p' as [vx' xm'] end.
    match type of HY' with sc _ (fst ?p) (fst ?p') /\ _ => destruct p as [vy ym], p' as [vy' ym'] end.
    cbn [fst snd] in HX', HY'. destruct HX' as [Hvx [Hx1 Hx2]], HY' as [Hvy [Hy1 Hy2]].
    (* the destructuring lets before `grid_final_size` bind variables that are shadowed: dead code *)
    repeat match goal with |- context [match ?s with mkSize _ _ => _ end] => destruct s end.
    unfold absout_rel. cbn [o_location o_size o_margin]. unfold_alifts. ahm k Hk.
  Qed.

  Theorem abs_grid_homog ct ct' ji ai i i' m m' :
    container_rel k ct ct' -> absin_rel k i i' -> abs_measure_homog k m m' ->
    absout_rel k (abs_grid ct ji ai i m) (abs_grid ct' ji ai i' m').
  Proof.
    intros (Hs & Hb & Hp & Hg) Hi Hm. unfold abs_grid, grid_child, grid_area_of.
    pose proof (rel_grid_abs_area k _ _ _ _ _ _ Hs Hb Hg) as Hga.
    apply rel_grid_place; try assumption; try apply sc_zero.
    apply Hm. apply (rel_grid_known k Hk); try assumption. apply sc_zero.
  Qed.

  Lemma rel_grid_resolve ga ga' st st' :
    arc_rel L ga ga' -> absstyle_rel k st st' -> absin_rel k (grid_resolve ga st) (grid_resolve ga' st').
  Proof.
    intros Hga (Hsz & Hmn & Hmx & Hin & Hmg & Hpd & Hbd & Har & Ebs & Eas & Ejs & Eps).
    unfold grid_resolve, absin_rel. cbv beta iota zeta.
    cbn [ai_aspect_ratio ai_margin ai_inset ai_padding ai_border ai_pb_sum ai_size ai_min0 ai_max ai_align_self ai_justify_self ai_position].
    rewrite Ebs. destruct (BoxSizing_eqb (st_box_sizing st) BS_ContentBox); unfold_alifts; ahm k Hk.
  Qed.
  Theorem abs_grid_style_homog ct ct' ji ai st st' m m' :
    container_rel k ct ct' -> absstyle_rel k st st' -> abs_measure_homog k m m' ->
    absout_rel k (abs_grid_style ct ji ai st m) (abs_grid_style ct' ji ai st' m').
  Proof.
    intros Hc Hst Hm. unfold abs_grid_style. apply abs_grid_homog; try assumption.
    destruct Hc as (Hs & Hb & Hp & Hg). apply rel_grid_resolve; try assumption.
    unfold grid_area_of. apply (rel_grid_abs_area k); assumption.
  Qed.
End AbsGrid.

(* ------------------------------------------------------------------------------------------------------------ *)
(** * The scaled inputs are related to the originals *)
Lemma asz_rel_scale k s : asz_rel (sc k) s (asize_scale k s).
Proof. split; apply sc_self. Qed.
Lemma aosz_rel_scale k s : asz_rel (op_rel (sc k)) s (aosize_scale k s).
Proof. split; apply op_rel_scale. Qed.
Lemma arc_rel_scale k r : arc_rel (sc k) r (arect_scale k r).
Proof. repeat split; apply sc_self. Qed.
Lemma aorc_rel_scale k r : arc_rel (op_rel (sc k)) r (aorect_scale k r).
Proof. repeat split; apply op_rel_scale. Qed.
Lemma apt_rel_scale k p : apt_rel (sc k) p (apoint_scale k p).
Proof. split; apply sc_self. Qed.
Lemma dim_rel_scale k d : dim_rel k d (adim_scale k d).
Proof. destruct d; cbn; try exact I; [apply sc_self | apply dl_refl]. Qed.
Lemma absin_rel_scale k i : absin_rel k i (absin_scale k i).
Proof.
  unfold absin_rel, absin_scale.
  cbn [ai_aspect_ratio ai_margin ai_inset ai_padding ai_border ai_pb_sum ai_size ai_min0 ai_max ai_align_self ai_justify_self ai_position].
  repeat split; try apply sc_self; try apply op_rel_scale; apply op_dl_refl.
Qed.
Lemma absstyle_rel_scale k st : absstyle_rel k st (absstyle_scale k st).
Proof.
  unfold absstyle_rel, absstyle_scale.
  cbn [st_size st_min_size st_max_size st_inset st_margin st_padding st_border st_aspect_ratio st_box_sizing st_align_self
       st_justify_self st_position].
  repeat split; try apply dim_rel_scale; apply op_dl_refl.
Qed.
Lemma container_rel_scale k ct : container_rel k ct (container_scale k ct).
Proof.
  unfold container_rel, container_scale. cbn [ct_size ct_border ct_padding ct_gutter].
  repeat split; apply sc_self.
Qed.
Lemma flexc_rel_scale k c : flexc_rel k c (flexc_scale k c).
Proof.
  unfold flexc_rel, flexc_scale.
  cbn [fc_container_size fc_border fc_scrollbar_gutter fc_content_box_inset fc_dir fc_is_row fc_is_wrap_reverse fc_justify_content fc_align_items].
  repeat split; apply sc_self.
Qed.
(* `related` = `equal, up to the equality of rationals, to the scaled output` *)
Lemma absout_rel_iff k o o' :
  absout_rel k o o' <->
  apt_rel dl (o_location (absout_scale k o)) (o_location o') /\ asz_rel dl (o_size (absout_scale k o)) (o_size o') /\
  arc_rel dl (o_margin (absout_scale k o)) (o_margin o').
Proof.
  unfold absout_rel, absout_scale, apt_rel, asz_rel, arc_rel, dl, sc, apoint_scale, asize_scale, arect_scale.
  cbn [o_location o_size o_margin point_map size_map rect_map p_x p_y s_width s_height r_left r_right r_top r_bottom]. tauto.
Qed.
