(* The block engine with the real cache (Model/BlockEngineReal.v): the facts that make the generic theorems of
   Proofs/EngineReal.v premise-free for it.
     bl_mcalls_le_1          one evaluation of a node calls the measure function at most once (containers: never; leaves: the log of
                             Leaf.compute_leaf_layout has at most one entry)
     blr_memo_acct           the accounting invariant for every evaluation / every compute_root_layout
     b_projection_laws       from_outer_size keeps the size; the ghost `b_is_outer` is sound *)
From Coq Require Import ZArith NArith Bool List Lia.
From TV Require Import Num.Num.
From TV Require Model.Leaf Model.Cache.
From TV Require Import Gen.BlockGen Model.Block Model.Engine Model.BlockAlg Model.BlockEngine Model.BlockRoot Model.EngineReal
  Model.BlockEngineReal Proofs.EngineReal.
Import ListNotations.

Section BlockReal.
  Context {T : Type} `{Num T}.

  Lemma leaf_mcalls_le_1 (s : BStyle T) m (i : BIn T) : (leaf_mcalls s m i <= 1)%N.
  Proof.
    unfold leaf_mcalls, Leaf.compute_leaf_layout.
    destruct (Leaf.leaf_early _ _); [cbn; lia|].
    destruct (Leaf.leaf_measure_known _); cbn; lia.
  Qed.

  Lemma bl_mcalls_le_1 (n : BNode T) kids i : (bl_mcalls n kids i <= 1)%N.
  Proof. unfold bl_mcalls. destruct kids; [apply leaf_mcalls_le_1|lia]. Qed.

  Lemma bosize_from_outer (s : Cache.size T) : bosize (bfrom_outer s) = s.
  Proof. destruct s. reflexivity. Qed.

  Lemma b_is_outer_spec (o : ChildOut T) : b_is_outer o = true -> bfrom_outer (bosize o) = o.
  Proof. discriminate. Qed.

  Theorem blr_memo_acct teq pre abs_child f (t : @brtree T) i o t' :
    Forall acct (gcounts _ _ _ t) -> blr_memo teq pre abs_child f t i = Some (o, t') -> Forall acct (gcounts _ _ _ t').
  Proof.
    intros HA Hm. apply GAll_counts. apply GAll_counts in HA.
    eapply gmemo_acct; [|exact HA|exact Hm]. intros. apply bl_mcalls_le_1.
  Qed.

  Lemma counts_reset_acct (t : @brtree T) : Forall acct (gcounts _ _ _ (greset _ _ _ t)).
  Proof. apply GAll_counts. apply GAll_reset. Qed.

  Lemma counts_set_lay (t : @brtree T) l : gcounts _ _ _ (gset_lay _ _ _ t l) = gcounts _ _ _ t.
  Proof. destruct t. reflexivity. Qed.

  (* one compute_layout: the counters of the pass *)
  Theorem blr_pass_acct teq pre abs_child f (t : @brtree T) avail t' :
    blr_compute_root teq pre abs_child f (greset _ _ _ t) avail = Some t' -> Forall acct (gcounts _ _ _ t').
  Proof.
    unfold blr_compute_root. destruct (blr_memo _ _ _ _ _ _) as [[o t1]|] eqn:E; [|discriminate].
    intros E'. injection E' as <-. rewrite counts_set_lay. eapply blr_memo_acct; [|exact E]. apply counts_reset_acct.
  Qed.

  (* ---- the ghost key with an exact equality of numbers is an exact equality of inputs *)
  Section Key.
    Variable teq : T -> T -> bool.
    Hypothesis teq_eq : forall a b, teq a b = true -> a = b.
    Lemma o_eqb_with_eq (a b : option T) : o_eqb_with teq a b = true -> a = b.
    Proof. destruct a, b; cbn; intros E; try discriminate; try reflexivity. f_equal. apply teq_eq. exact E. Qed.
    Lemma av_eqb_with_eq (a b : Avail T) : av_eqb_with teq a b = true -> a = b.
    Proof. destruct a, b; cbn; intros E; try discriminate; try reflexivity. f_equal. apply teq_eq. exact E. Qed.
    Theorem bin_eqb_with_eq (a b : BIn T) : bin_eqb_with teq a b = true -> a = b.
    Proof.
      destruct a as [m s [kw kh] [pw ph] [aw ah] [cs ce]], b as [m' s' [kw' kh'] [pw' ph'] [aw' ah'] [cs' ce']].
      unfold bin_eqb_with. cbn [bi_mode bi_inherent bi_known bi_parent bi_avail bi_collapsible s_w s_h l_start l_end].
      intros E. repeat (apply andb_prop in E; destruct E as [E ?]).
      repeat match goal with
             | [ X : o_eqb_with teq _ _ = true |- _ ] => apply o_eqb_with_eq in X
             | [ X : av_eqb_with teq _ _ = true |- _ ] => apply av_eqb_with_eq in X
             | [ X : Bool.eqb _ _ = true |- _ ] => apply eqb_prop in X
             end.
      subst.
      assert (m = m') by (destruct m, m'; try discriminate; reflexivity).
      subst. reflexivity.
    Qed.
  End Key.

  (* numbers compared as numbers: the key of Model/BlockEngine.v *)
  Lemma bin_eqb_with_eqb (a b : BIn T) : bin_eqb_with eqb a b = bin_eqb a b.
  Proof. reflexivity. Qed.
End BlockReal.
