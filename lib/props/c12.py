"""C12 -- content-box and border-box sizing are interchangeable.
T  Gen/BoxSizingSites.v (translator/gen_boxsizing.py): every function of src/compute/**.rs with a `let box_sizing_adjustment = ..`
   (shape of the conditional, padding+border, axis projection) and every size / min_size / max_size / flex_basis use in it,
   classified by its method chain; the uses in functions without any adjustment.  Gen/MathGen.v, Gen/AbsPosGen.v (tables, abspos kernels).
P  Props/C12.v: the idiom, the leaf kernel and the one-node tree in full, the `*_resolve` parts of the three abspos kernels, the
   site-scan obligations (vm_compute over the generated table), GridItem::minimum_contribution partial + refuted.
K  `vh c12 cases`: eligible content-box leaf styles (C19 case format) and their border-box rewrite on the implementation vs
   Model.BoxSizingRun.run_pair (root_leaf / compute_leaf_layout on st and on to_border_box st, F32, bit for bit).
S  `vh c12 oracle`: random trees, a random subset of nodes switched between the two modes (both directions), both trees laid out
   from scratch, every unrounded Layout compared bit for bit; `vh c12 demo`: the recorded finding's minimal reproducer."""
from ..common import *
from ..stages import *

KNOWN_ID = 'grid-compressible-replaced-max-size'


def split_pair(r):
    n = r[0]
    return r[1:1 + n], r[1 + n:]


def describe(c):
    return {'entry': 'TaffyTree root' if c[0] == 0 else 'compute_leaf_layout', 'display': ['block', 'flex', 'grid', 'none'][c[1]],
            'run_mode': ['PerformLayout', 'ComputeSize', 'PerformHiddenLayout'][c[52]],
            'sizing_mode': 'InherentSize' if c[53] else 'ContentSize',
            'lengths': sum(1 for i in range(6) if c[7 + 2 * i] == 1)}


def eval_model(cases):
    try:
        return run_model('C12', 'From TV Require Import Model.BoxSizingRun.', 'run_pair', cases, scope='Z', elem='list Z')
    except RuntimeError as ex:
        if 'Error' in str(ex) or 'timed out' in str(ex):
            raise
        log('[C12] model evaluation died without an error message (%s); retrying with 6 shards' % str(ex)[:80])
        return run_model('C12r', 'From TV Require Import Model.BoxSizingRun.', 'run_pair', cases, scope='Z', elem='list Z', shards=6)


def run(rep, tier, seed, replay=None):
    trusted = [
        'hand models Model/Leaf.v, Model/Root.v (compute_leaf_layout, compute_root_layout for a childless root), Model/BoxSizing.v '
        '(bs_resolve, to_border_box, minimum_contribution_axis): tied to the source by K (leaf/root), fingerprints and the oracle',
        'the GRID container-level sites (containers, their item lists, GridItem) are covered by the site-scan obligation (every '
        'use adjusted, generated table) + the idiom theorem + the whole-tree oracle, not by a kernel theorem: BoxSizingBlind is a premise '
        'of C12_engine for them',
        'the FLEX sites (compute_flexbox_layout / compute_constants / generate_anonymous_flex_items / determine_flex_base_size / '
        'determine_used_cross_size / the absolute pass) are proved in Gallina on Model/FlexAlg.v flex_alg = all of compute_flexbox_layout as '
        'a resumption (C12_flex_resolutions_blind, C12_flex_algorithm_box_sizing_blind: premise-free) -- tied event by event and bit for bit '
        'by `vh flexalg cases` (re-run here) -- and composed with block containers and leaves in the engine Model/BlockFlexK.v '
        '(C12_blockflex_engine_instance_partial; dispatch no children -> leaf / display:flex -> flex / else block, exact-key memo; no runner '
        'of its own, but proved equal to the complete engine real_memo that `vh taffytree` runs on every tree without grid containers: '
        'Props/C04.v C04_blockflex_engine_is_taffy_engine, restated here as C12_taffy_engine_rewritten_layouts_partial); '
        'the per-node rewrite of the engine theorem leaves flex_basis alone (class: flex_basis not a length), the algorithm theorem covers '
        'length flex_basis rewritten along the container\'s main axis',
        'the block sites (compute_block_layout / compute_inner / generate_item_list) are proved in Gallina on the hand models Model/Block.v '
        '(C12_block_resolutions_blind) and composed through the engine skeleton for trees of block containers and leaves '
        '(C12_block_engine_instance: Model/BlockAlg.v + Model/BlockEngine.v, exact-key memo; absolute pass = parameter abs_child, premise '
        'discharged for the REAL routine abs_child_block = translated kernel Gen/AbsPosGen.v + hand glue, Model/BlockAbs.v; root glue '
        'Model/BlockRoot.v); that instance is tied to TaffyTree::compute_layout_with_measure bit for bit by `vh blocktree cases`',
        'translator/gen_boxsizing.py classifies uses by their method chain (syntactic); a length read through an alias or helper '
        'function would be reported as RawCopy and break the obligation rather than be missed',
        'theorems are over exact rationals (XQ) up to xeq; over binary32 `l + pb` is exact for the dyadic lengths the oracle uses',
        'measure functions are assumed not to distinguish equal rationals (measure_respects_xeq)']
    res, changed = proof_stage(rep, 'C12', extra_trusted=trusted)
    if not res['compiled'] and 'Error' not in res.get('output', ''):
        log('[C12] proof build stopped without a Coq error; retrying once')
        rep.broken = [b for b in rep.broken if b['kind'] != 'proof']
        res, changed = proof_stage(rep, 'C12', extra_trusted=trusted)
    rc, out, binp, dt = build_harness('release')
    if rc != 0:
        rep.add_broken('build', 'harness', out[-1500:])
        return
    mine = [k for k in changed if k.startswith('gen_boxsizing:') or k.startswith('gen_math:')]
    rep.cov['samples'] = []

    # ---- replay of one oracle case
    if replay and 'idx' in replay:
        rc, out = vh(binp, ['c12', 'one', replay.get('seed', seed), replay['idx']])
        last = [l for l in out.split('\n') if l.startswith(('FAIL', 'KNOWN', 'SAME', 'BOTH-PANIC'))]
        if last and last[-1].startswith('FAIL'):
            rep.add_violation(last[-1][5:], {'seed': replay.get('seed', seed), 'idx': replay['idx'],
                                             'cmd': 'vh c12 one %s %s' % (replay.get('seed', seed), replay['idx'])})
        rep.cov['samples'].append({'replayed': last[-1] if last else out[-300:]})
        return

    # ---- whole-tree tie of the block engine instance the C12_block_engine_real_* / C12_block_layout_pass theorems are about
    if not replay:
        from . import _blocktree
        _blocktree.tree_k(rep, 'C12', binp, (seed ^ 0xC12) & 0x7fffffff, 3000 if (tier != 'quick' or mine) else 300)
        # ---- the flex resumption the C12_flex_algorithm_box_sizing_blind / C12_blockflex_engine_* theorems are about (Model/FlexAlg.v flex_alg =
        # all of compute_flexbox_layout): event by event, bit for bit
        from . import _flexalg as FA
        FA.flexalg_k(rep, 'C12', binp, (seed ^ 0xF12) & 0x7fffffff, 1500 if (tier != 'quick' or mine) else 300, payload_is_broken=True)

    # ---- K: leaf / root, content-box style and its rewrite
    n = 1200 if tier == "quick" else 20000
    if mine:
        n = max(n, 3000)
    if replay and 'case' in replay:
        rc, out = vh(binp, ['c12', 'pair'] + replay['case'])
    else:
        rc, out = vh(binp, ['c12', 'cases', seed, n])
    try:
        cases, impl = parse_cr(out)
    except RuntimeError as ex:
        cases, impl = [], []
        out += str(ex)
    if rc != 0 or not cases:
        rep.add_broken('correspondence', 'vh c12 cases', 'harness failed: ' + out[-500:])
        return
    model = None
    try:
        with Lock('coq'):
            rcm, outm, _ = coq_make(['Model/BoxSizingRun.vo'])
        if rcm != 0:
            raise RuntimeError(outm[-1500:])
        model = eval_model(cases)
        diff_results(rep, 'leaf / root on st and on to_border_box st over F32 vs the implementation on st and on the harness rewrite',
                     cases, impl, model)
    except RuntimeError as ex:
        rep.add_broken('correspondence', 'model evaluation', str(ex)[-1500:])
    impl_pair_diff, model_pair_diff, changed_styles = [], 0, 0
    for k, (c, r) in enumerate(zip(cases, impl)):
        a, b = split_pair(r)
        if a != b:
            impl_pair_diff.append((c, a, b))
        if model is not None and len(model[k]) > 1:
            ma, mb = split_pair(model[k])
            if ma != mb:
                model_pair_diff += 1
        pbw = any(c[30 + 2 * i] != 0 for i in (0, 1)) or any(c[38 + 2 * i] != 0 for i in (0, 1))
        pbh = any(c[30 + 2 * i] != 0 for i in (2, 3)) or any(c[38 + 2 * i] != 0 for i in (2, 3))
        if any(c[7 + 2 * i] == 1 and (pbw if i % 2 == 0 else pbh) for i in range(6)):
            changed_styles += 1
    if model_pair_diff:
        rep.add_broken('correspondence', 'model: to_border_box changes the F32 result',
                       '%d of %d pairs differ in the model' % (model_pair_diff, len(cases)))
    for c, a, b in impl_pair_diff[:3]:
        rep.add_violation('leaf laid out differently after the content-box -> border-box rewrite: %s' % describe(c),
                          {'case': c, 'content_box': a, 'border_box': b, 'cmd': 'vh c12 pair ' + ' '.join(map(str, c))})
    dist = {}
    for c in cases:
        d = describe(c)
        for key in ('entry', 'display', 'run_mode', 'sizing_mode'):
            kk = '%s=%s' % (key, d[key])
            dist[kk] = dist.get(kk, 0) + 1
    rep.cov['k_pairs'] = len(cases)
    rep.cov['k_pairs_with_changed_lengths'] = changed_styles
    rep.cov['input_distribution'] = dist
    rep.cov['samples'] += [{'case': c, 'impl': a, 'shape': describe(c)} for c, a in list(zip(cases, impl))[:2]]
    rep.cov['samples'].append({'theorem': 'C12_leaf : forall inputs st measure, eligible st -> measure_respects_xeq measure -> '
                               'result_xeq (compute_leaf_layout inputs (to_border_box st) measure) (compute_leaf_layout inputs st measure)'})
    rep.cov['samples'].append({'theorem': 'C12_block_engine_rewritten_layouts : forall f t w i o t1, sk_all bn_ok t -> bl_memo block_pre '
                               'abs_child_simple f (bl_fresh t) i = Some (o, t1) -> exists o\' t1\', bl_memo .. f (bl_fresh (sk_map_where '
                               'bn_to_border_box w t)) i = Some (o\', t1\') /\\ bout_rel 1 o o\' /\\ Forall2 (blay_rel 1) (lays t1) (lays t1\')'})
    rep.cov['samples'].append({'theorem': 'C12_all_sites_adjust : forallb site_wellformed box_sizing_sites = true /\\ '
                               'submultiset (all_omissions box_sizing_sites) recorded_omissions = true'})
    if replay and 'case' in replay:
        return

    # ---- the recorded finding: must reproduce on every run (otherwise the entry is stale)
    known = [k for k in known_findings('C12') if k.get('id') == KNOWN_ID and k.get('status') == 'known']
    rc, out = vh(binp, ['c12', 'demo'])
    demo = {}
    for l in out.split('\n'):
        m = re.match(r'DEMO (\w+) content_box=(\S+) border_box=(\S+)', l)
        if m:
            demo[m.group(1)] = (float(m.group(2)), float(m.group(3)))
    rep.cov['demo'] = demo
    if rc != 0 or 'replaced' not in demo or 'plain' not in demo:
        rep.add_broken('search', 'vh c12 demo', out[-500:])
    else:
        if demo['plain'][0] != demo['plain'][1]:
            rep.add_violation('grid item (not replaced), max-width 10 content-box vs 20 border-box with padding 5+5: widths %s vs %s' % demo['plain'],
                              {'cmd': 'vh c12 demo'})
        reproduced = demo['replaced'][0] != demo['replaced'][1]
        if reproduced and not known:
            rep.add_violation('compressible replaced grid item, max-width 10 content-box vs 20 border-box with padding 5+5: widths %s vs %s'
                              % demo['replaced'], {'cmd': 'vh c12 demo'})

    # ---- search: whole trees
    nor = 2000000 if tier == 'thorough' else (400000 if (rep.broken or mine) else 150000)
    rc, out = vh(binp, ['c12', 'oracle', seed, 0, nor], timeout=900)
    fails, knowns, summary = [], [], {}
    for l in out.split('\n'):
        if l.startswith('FAIL '):
            p = l.split(' ', 2)
            fails.append((int(p[1]), p[2]))
        elif l.startswith('KNOWN '):
            p = l.split(' ', 3)
            knowns.append((int(p[1]), p[3]))
        elif l.startswith('ORACLE '):
            summary = dict((kv.split('=')[0], int(kv.split('=')[1])) for kv in l.split()[1:])
    if rc != 0 or not summary:
        rep.add_broken('search', 'vh c12 oracle', out[-500:])
    rep.cov['oracle'] = summary
    rep.cov['evaluations'] = rep.cov.get('evaluations', 0) + summary.get('compared', 0)
    rep.cov['distinct_nontrivial'] = summary.get('distinct_nontrivial', 0)
    rep.cov['exact_match_rate'] = (summary.get('exact', 0) / summary['compared']) if summary.get('compared') else 0.0
    rep.cov['rule'] = ('oracle: treegen trees (flex / grid / block containers, up to 12-20 nodes, dyadic lengths in quarters, percentages, '
                       'min/max, insets, overflow, measured leaves, absolute and hidden children), every node with probability 1/2 made '
                       'eligible (percent padding/border -> length, aspect ratio removed, percent size/min/max/flex-basis -> length or auto) '
                       'and every eligible node switched with probability 2/3: content-box -> border-box with lengths + padding+border, '
                       'border-box -> content-box with lengths - padding+border when all are >= it (flex_basis by the parent flex '
                       'direction); both trees laid out from scratch with rounding off, all 21 Layout fields of every node compared '
                       'bit for bit (no tolerance: exact_match_rate counts trees without any differing bit).  non-trivial = at least one '
                       'switched node whose lengths really changed; distinct = distinct (tree, switched set, available space).  '
                       'K: %d eligible content-box leaf styles (C19 case format; TaffyTree root and direct compute_leaf_layout in all run / '
                       'sizing modes), each compared bit for bit with the model on st and on to_border_box st' % len(cases))
    rep.cov['samples'].append({'oracle_case': 'vh c12 one %d 7' % seed, 'summary': summary})
    for idx, msg in fails[:3]:
        rep.add_violation('trees differ after switching box-sizing: ' + msg, {'seed': seed, 'idx': idx, 'cmd': 'vh c12 one %d %d' % (seed, idx)})
    if knowns and not known:
        for idx, msg in knowns[:2]:
            rep.add_violation('trees differ after switching box-sizing (compressible replaced grid item): ' + msg,
                              {'seed': seed, 'idx': idx, 'cmd': 'vh c12 one %d %d' % (seed, idx)})
    if known:
        reproduced = 'replaced' in demo and demo['replaced'][0] != demo['replaced'][1]
        if reproduced or knowns:
            rep.known.append('%s (vh c12 demo: width %s content-box vs %s border-box; %d of %d random trees, first: %s)'
                             % (known[0]['line'].replace('known: property=C12 ', ''), demo.get('replaced', ('?', '?'))[0],
                                demo.get('replaced', ('?', '?'))[1], summary.get('known', 0), summary.get('compared', 0),
                                ('idx %d %s' % knowns[0])[:160] if knowns else 'none in this sample'))
        else:
            rep.cov['stale_known_finding'] = KNOWN_ID
            log('[C12] known finding %s did not reproduce: the entry in known_findings.json is stale' % KNOWN_ID)
