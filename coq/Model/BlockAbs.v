(* The REAL absolute-item routine of block containers (block.rs `perform_absolute_layout_on_absolute_children`, one loop
   iteration) as an instance of the parameter `AbsChild` of Model/BlockAlg.v, built from the TRANSLATED kernel
   Gen/AbsPosGen.v (regenerated from block.rs on every run: `block_abs_area`, `block_resolve`, `block_known`, `block_place`
   -- the kernel the theorems C11_*_block, C04_abs_block, C12_abs_block are about).  `Num`-generic, definitions only.

   In the order of the source (l.594-787):
     area / offset          compute_inner l.245-247 (`absolute_position_inset = resolved_border + scrollbar_gutter`, the border
                            resolved against the container's OWN outer width)                       -- generated block_abs_area
     resolve the style      margins, padding, border, insets, size / min / max against the area      -- generated block_resolve
     known dimensions       clamped style size, filled in from opposite insets, aspect ratio        -- generated block_known
     the query              perform_child_layout(node, known_dimensions, area_size.map(Some),
                              Definite(area_width.maybe_clamp(min.width, max.width)) x Definite(area_height.maybe_clamp(..)),
                              SizingMode::ContentSize, Line::FALSE)       -- hand glue `abs_query_input` (l.658-668); ONE query
     final size, margins,   -- generated block_place, applied to the size the query returned
     location
     the stored layout      set_unrounded_layout: order = item.order, size = final size, content_size = the query's, scrollbar_size
                            from the item, padding / border as resolved HERE (against the area width), margin = resolved margin
     content contribution   compute_content_size_contribution(location, final_size, content_size, item.overflow)
   The vocabulary adapter abs_style_of : BStyle -> AbsStyle is field by field (a block style has no align_self / justify_self:
   the block routine does not read them). *)
From Coq Require Import ZArith NArith Bool List.
From TV Require Import Num.Num.
From TV Require Gen.AbsPosEnums Model.AbsPosBase Gen.AbsPosGen.
From TV Require Import Gen.BlockGen Model.Block Model.Engine Model.FiltersBase Gen.FiltersGen Model.ItemFilters Model.BlockAlg.
Import ListNotations.

Module AB := Model.AbsPosBase.
Module AG := Gen.AbsPosGen.
Module AE := Gen.AbsPosEnums.

Section BlockAbs.
  Context {T : Type} `{Num T}.

  Notation Alg := (Engine.Alg (BIn T) (ChildOut T) (BLayout T)).

  (* ---- vocabulary adapter: Model/Block.v -> Model/AbsPosBase.v *)
  Definition ab_dim (d : LPA T) : AB.Dim T :=
    match d with Len v => AB.DLength v | Pct p => AB.DPercent p | Auto => AB.DAuto end.
  Definition ab_size {A B} (f : A -> B) (s : BSize A) : AB.Size B := AB.mkSize (f (s_w s)) (f (s_h s)).
  Definition ab_rect {A B} (f : A -> B) (r : BRect A) : AB.Rect B :=
    AB.mkRect (f (r_left r)) (f (r_right r)) (f (r_top r)) (f (r_bottom r)).
  Definition ab_id (x : T) : T := x.
  Definition abs_style_of (s : BStyle T) : AB.AbsStyle T :=
    AB.mkAbsStyle (ab_size ab_dim (st_size s)) (ab_size ab_dim (st_min_size s)) (ab_size ab_dim (st_max_size s))
                  (ab_rect ab_dim (st_inset s)) (ab_rect ab_dim (st_margin s)) (ab_rect ab_dim (st_padding s))
                  (ab_rect ab_dim (st_border s)) (st_aspect_ratio s)
                  (if st_content_box s then AE.BS_ContentBox else AE.BS_BorderBox) None None
                  (match st_position s with PAbsolute => AE.Pos_Absolute | PRelative => AE.Pos_Relative end).

  (* and back *)
  Definition ba_size {A} (s : AB.Size A) : BSize A := mkSize (AB.s_width s) (AB.s_height s).
  Definition ba_rect {A} (r : AB.Rect A) : BRect A := mkRect (AB.r_left r) (AB.r_right r) (AB.r_top r) (AB.r_bottom r).

  (* ---- compute_inner l.141-148 + l.245-247: the area absolute children are positioned against *)
  Definition abs_gutter_offsets (st : BStyle T) : AB.Point T :=
    AB.mkPoint (if overflow_is_scroll (st_overflow_y st) then st_scrollbar_width st else zero)
               (if overflow_is_scroll (st_overflow_x st) then st_scrollbar_width st else zero).
  Definition abs_area (st : BStyle T) (sz : BSize T) : AB.Size T * AB.Point T :=
    AG.block_abs_area (ab_size ab_id sz) (ab_rect ab_id (rect_resolve_or_zero (st_border st) (Some (s_w sz)))) (abs_gutter_offsets st).

  (* min_size as the routine uses it: `.or(padding_border_sum.map(Some)).maybe_max(padding_border_sum)` (the same expression
     the generated block_known / block_place start with) *)
  Definition abs_min_size (i : AB.AbsIn T) : AB.Size (option T) :=
    AB.size_zip2 AG.maybe_max_OF (AB.size_or (AB.ai_min0 i) (AB.size_map Some (AB.ai_pb_sum i))) (AB.ai_pb_sum i).

  (* l.658-668: the inputs of the one query *)
  Definition abs_query_input (area : AB.Size T) (i : AB.AbsIn T) (known : AB.Size (option T)) : BIn T :=
    let mn := abs_min_size i in
    let mx := AB.ai_max i in
    mkBIn PerformLayout false (ba_size known) (mkSize (Some (AB.s_width area)) (Some (AB.s_height area)))
          (mkSize (Definite (AG.maybe_clamp_FOO (AB.s_width area) (AB.s_width mn) (AB.s_width mx)))
                  (Definite (AG.maybe_clamp_FOO (AB.s_height area) (AB.s_height mn) (AB.s_height mx))))
          (mkLine false false).

  (* the stored layout (l.763-776) *)
  Definition abs_layout (a : @AItem T) (r : ItemResult T) (i : AB.AbsIn T) (out : AB.AbsOut T) (co : ChildOut T) : BLayout T :=
    mkLay (it_order (ai_item a)) (AB.p_x (AB.o_location out)) (AB.p_y (AB.o_location out)) (ba_size (AB.o_size out))
          (co_content_size co) (ir_scrollbar r) (ba_rect (AB.ai_padding i)) (ba_rect (AB.ai_border i)) (ba_rect (AB.o_margin out)).

  Definition abs_child_block : @AbsChild T :=
    fun st sz a r K =>
      let area := fst (abs_area st sz) in
      let off := snd (abs_area st sz) in
      let static := AB.mkPoint (ir_static_x r) (ir_static_y r) in
      let i := AG.block_resolve area off (abs_style_of (ai_style a)) in
      let known := AG.block_known area off static i in
      Engine.Query (BIn T) (ChildOut T) (BLayout T) (ai_node a) (abs_query_input area i known)
        (fun co =>
           let out := AG.block_place area off static i (ab_size ab_id (co_size co)) in
           Engine.SetLayout (BIn T) (ChildOut T) (BLayout T) (ai_node a) (abs_layout a r i out co)
             (K (content_size_contribution (AB.p_x (AB.o_location out)) (AB.p_y (AB.o_location out)) (ba_size (AB.o_size out))
                                           (co_content_size co) (it_overflow_x (ai_item a)) (it_overflow_y (ai_item a))))).
End BlockAbs.
