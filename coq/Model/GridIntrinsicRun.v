(* Executable driver of the C09 correspondence check, stage 2: the whole `track_sizing_algorithm` with the full step
   11.5 of Model/GridIntrinsic.v (the definitions the theorems of Props/C09.v are about) instantiated at F32 and
   evaluated on the harness's cases (`vh c09 cases`).

   case   = Wk W Hk H  aWk aW aHk aH  pad(l r t b)  border(l r t b)  gap_w(kind bits) gap_h(kind bits)
            justify_content align_content <template columns> <template rows> <auto columns> <auto rows>
            n_items (kind col_line col_span row_line row_span w h ml mr mt mb ovx ovy)*
            kind 0: leaf of fixed size w x h; kind 1: "text" leaf without a size style, measured: w = glyph count n (an
            integer), h = glyph size `unit` (bits): min-content width = unit, max-content width = n * unit
            Wk/Hk: 0 = the container's size on that axis is the length W/H, 1 = auto
            aWk/aHk: the available space handed to compute_layout: 0 max-content, 1 min-content, 2 definite (aW/aH)
   result = as in GridTracksRun: for columns then rows: negative_implicit explicit positive_implicit n sizes.. n+1
            gutters..; container width height; for every item x y.

   The container is a border-box root grid (length padding and border, no min/max size), its children are leaves of
   fixed size w x h (border-box, no padding/border/min/max/aspect ratio) with length margins, overflow visible (0) or
   hidden (1: a scroll container), placed at CSS line `col_line` / `row_line` spanning `*_span` tracks.  For such an item
   GridItem::{min,max}_content_contribution_cached return its fixed size and minimum_contribution_cached that size capped
   by the sum of the max track sizing functions of the tracks it spans when all of them are definite
   (spanned_fixed_track_limit) -- computed here; everything downstream is the model.  compute_grid_layout's glue
   (available grid space, track counts of definitely placed items, the two sizing passes and their re-runs, percentage
   re-resolution, container size, item position) is mirrored here. *)
From Coq Require Import ZArith NArith Bool List.
From TV Require Import Num.Num Num.F32 Gen.GridTracksGen Model.GridTracks Model.GridTracksRun Model.GridIntrinsic.
Import ListNotations.
Open Scope Z_scope.

Record ritem := mk_ritem {
  r_kind : Z; r_col : Z; r_cspan : Z; r_row : Z; r_rspan : Z; r_w : f32; r_h : f32;
  r_ml : f32; r_mr : f32; r_mt : f32; r_mb : f32; r_ovx : Z; r_ovy : Z }.

Fixpoint take_ritems (n : nat) (xs : list Z) : list ritem :=
  match n with
  | O => []
  | S n' =>
      match xs with
      | k :: c :: cs :: r :: rs :: w :: h :: ml :: mr :: mt :: mb :: ox :: oy :: rest =>
          mk_ritem k c cs r rs (if k =? 0 then f_of_bits w else of_Z w) (f_of_bits h) (f_of_bits ml) (f_of_bits mr) (f_of_bits mt) (f_of_bits mb) ox oy
            :: take_ritems n' rest
      | _ => []
      end
  end.

(* what one axis reads of an item: CSS start line, span, fixed size, margin at the start and end of the axis, overflow *)
Record aitem := mk_aitem { a_line : Z; a_span : Z; a_min : f32; a_max : f32; a_has_size : bool;
                           a_m0 : f32; a_m1 : f32; a_scroll : bool; a_vertical : bool }.

(* a text item (kind 1): min-content width = unit, max-content width = n as f32 * unit; its rows are sized without
   looking at any contribution (the class keeps every row track rigid), so the row view carries zeros *)
Definition col_aitem (i : ritem) : aitem :=
  if r_kind i =? 0 then mk_aitem (r_col i) (r_cspan i) (r_w i) (r_w i) true (r_ml i) (r_mr i) (negb (r_ovx i =? 0)) false
  else mk_aitem (r_col i) (r_cspan i) (r_h i) (f_mul (r_w i) (r_h i)) false (r_ml i) (r_mr i) (negb (r_ovx i =? 0)) false.
Definition row_aitem (i : ritem) : aitem :=
  if r_kind i =? 0 then mk_aitem (r_row i) (r_rspan i) (r_h i) (r_h i) true (r_mt i) (r_mb i) (negb (r_ovy i =? 0)) true
  else mk_aitem (r_row i) (r_rspan i) zero zero true (r_mt i) (r_mb i) (negb (r_ovy i =? 0)) true.

(* margins_axis_sums_with_baseline_shims(..).get(axis): left + right, (top + baseline_shim) + bottom with shim 0.0 *)
Definition margin_sum (a : aitem) : f32 :=
  if a_vertical a then f_add (f_add (a_m0 a) zero) (a_m1 a) else f_add (a_m0 a) (a_m1 a).

Definition dec_avail (k v : Z) : avail_space f32 :=
  match k with 0 => MaxContentA | 1 => MinContentA | _ => Definite (f_of_bits v) end.

Record axis_setup := { as_counts : track_counts; as_tracks : list (track f32); as_items : list (item f32);
                       as_sizes : list (f32 * f32 * bool) }.

(* counts from the definite placements, initialise the track vector, the items as the sizing algorithm reads them *)
Definition setup_axis (template : list (tsf f32)) (autos : list (nrt f32)) (gap : sfn f32) (autofit_inner : option f32)
           (size_is_maximum : bool) (aitems : list aitem) : axis_setup :=
  let explicit := explicit_grid_size template autofit_inner gap size_is_maximum in
  let oz := map (fun a => origin_zero explicit (a_line a)) aitems in
  let spans := map a_span aitems in
  let neg := fold_left (fun acc s => Z.max acc (- s)) oz 0 in
  let pos := fold_left (fun acc se => Z.max acc (fst se + snd se - Z.of_N explicit)) (combine oz spans) 0 in
  let counts := mk_counts (Z.to_N neg) explicit (Z.to_N pos) in
  let has_items := fun i : N => existsb (fun se => (fst se + neg <=? Z.of_N i) && (Z.of_N i <? fst se + neg + snd se))
                                        (combine oz spans) in
  let tracks0 := initialize_grid_tracks counts template autos gap has_items in
  let mk := fun (idx : nat) (sa : Z * aitem) =>
              let '(s, a) := sa in
              mk_axis_item idx s (Z.to_nat (s + neg)) (Z.to_nat (a_span a)) (a_scroll a) (margin_sum a) tracks0 in
  let items := map (fun p => mk (fst p) (snd p)) (combine (seq 0 (length aitems)) (combine oz aitems)) in
  Build_axis_setup counts tracks0 items (map (fun a => (a_min a, a_max a, a_has_size a)) aitems).

Definition size_axis_with (contrib : item f32 -> ckind -> f32) (avail : avail_space f32) (inner : option f32)
           (align : align_content) (items : list (item f32)) (tracks : list (track f32)) : list (track f32) :=
  track_sizing_algorithm_full contrib None None (is_stretch align) avail inner items tracks.
Definition size_axis (s : axis_setup) (avail : avail_space f32) (inner : option f32) (align : align_content)
           (items : list (item f32)) (tracks : list (track f32)) : list (track f32) :=
  size_axis_with (content_contrib inner (as_tracks s) (as_sizes s)) avail inner align items tracks.

(* ---- the contribution caches across the re-runs of compute_grid_layout.  min-/max-content contributions of the item
   class do not depend on the pass; the MINIMUM contribution does (spanned_fixed_track_limit resolves percentages against
   inner_node_size, which is None in the first pass of an indefinite axis).  A re-run re-evaluates it only for the items
   whose cache was cleared: all of them when the re-run is due to percentage tracks, otherwise the items that the
   short-circuiting `.filter(crosses_intrinsic_column).any(..)` closure visited -- in the order the previous sort left. *)
Definition minimum_evaluated (s : axis_setup) (it : item f32) : bool :=
  if it_crosses_flex it || negb (Nat.eqb (it_span it) 1) then it_crosses_intrinsic it
  else match nth_error (as_tracks s) (S (it_start it)) with Some t => is_auto (minf t) | None => false end.

Fixpoint visit (changed : nat -> bool) (ids : list nat) : list nat :=
  match ids with
  | [] => []
  | i :: r => if changed i then [i] else i :: visit changed r
  end.
Definition dummy_item : item f32 := mk_item 0%nat 0 0%nat 0%nat 0%nat false false false zero.
Definition item_by_id (l : list (item f32)) (i : nat) : item f32 := nth i l dummy_item.
Definition sorted_ids (ids : list nat) (l : list (item f32)) : list nat :=
  map it_id (sort_items (map (item_by_id l) ids)).
Definition mem (i : nat) (l : list nat) : bool := existsb (Nat.eqb i) l.

(* the oracle of a re-run: a stale minimum contribution (first-pass inner size) where the cache survived *)
Definition rerun_contrib (s : axis_setup) (inner_first inner_now : option f32) (stale : nat -> bool)
           (it : item f32) (k : ckind) : f32 :=
  match k with
  | KMinimum => if stale (it_id it) then content_contrib inner_first (as_tracks s) (as_sizes s) it k
                else content_contrib inner_now (as_tracks s) (as_sizes s) it k
  | _ => content_contrib inner_now (as_tracks s) (as_sizes s) it k
  end.

(* whether min_content_contribution_cached was evaluated for the item during a sizing pass of its axis (decides the
   re-run of compute_grid_layout: `Some(new) != item.min_content_contribution_cache`) *)
Definition mcc_queried (s : axis_setup) (inner : option f32) (avail : avail_space f32) (it : item f32) : bool :=
  let tracks := as_tracks s in
  let '(cmin, _, has_size) := nth (it_id it) (as_sizes s) (zero, zero, true) in
  (* GridItem::minimum_contribution evaluates min_content_contribution_cached for the content-based automatic minimum *)
  let minimum_q := negb has_size && negb (it_scroll it)
                   && existsb (fun t => is_auto (minf t)) tracks
                   && (Nat.eqb (range_len it) 1 || negb (existsb (fun t => is_fr (maxf t)) tracks)) in
  if it_crosses_flex it || negb (Nat.eqb (it_span it) 1) then true
  else
    match nth_error tracks (S (it_start it)) with
    | None => false
    | Some t =>
        let base_q :=
          match minf t with
          | SMinContent => true
          | SPercent _ => match inner with None => true | Some _ => false end
          | SAuto => match avail with Definite _ => minimum_q | _ => negb (it_scroll it) || minimum_q end
          | _ => false
          end in
        let limit_q :=
          if is_fit_content (maxf t) then negb (it_scroll it)
          else if is_max_content_alike (maxf t) || (uses_percentage (maxf t) && match inner with None => true | _ => false end)
          then false
          else is_intrinsic (maxf t) in
        base_q || limit_q
    end.

(* step 7 of compute_grid_layout: percentage tracks of an axis sized under a min-/max-content constraint *)
Definition reresolve_percent (content : f32) (tracks : list (track f32)) : list (track f32) :=
  map (fun t =>
         let mn := match minf t with SPercent v => Some (f_mul v content) | _ => None end in
         let mx := match maxf t with SPercent v => Some (f_mul v content) | _ => None end in
         let b := base_size t in
         let b' := match mn, mx with
                   | Some a, Some c => fmax (fmin b c) a
                   | None, Some c => fmin b c
                   | Some a, None => fmax b a
                   | None, None => b
                   end in
         set_base t b') tracks.

Definition track_uses_percentage (t : track f32) : bool :=
  (match minf t with SPercent _ => true | _ => false end) || uses_percentage (maxf t).

Definition enc_tracks (c : track_counts) (ts : list (track f32)) : list Z :=
  enc_axis (Build_axis_result c ts).

Definition item_offset (ts : list (track f32)) (it : item f32) (m0 : f32) : f32 :=
  match nth_error ts (S (it_start it)) with
  | Some t => f_add (f_add (offset t) (f_add m0 zero)) zero
  | None => zero
  end.

Definition avail_is_definite (a : avail_space f32) : bool := match a with Definite _ => true | _ => false end.

Definition run_case2 (c : list Z) : list Z :=
  match c with
  | wk :: w :: hk :: h :: awk :: aw :: ahk :: ah :: pl :: pr :: pt :: pb :: bl :: br :: bt :: bb :: gwk :: gwv :: ghk :: ghv
       :: jc :: ac :: ncols :: r0 =>
      let '(cols, r1) := take_template (Z.to_nat ncols) r0 in
      match r1 with
      | nrows :: r1' =>
          let '(rows, r2) := take_template (Z.to_nat nrows) r1' in
          match r2 with
          | nac :: r2' =>
              let '(acols, r3) := take_tracks (Z.to_nat nac) r2' in
              match r3 with
              | nar :: r3' =>
                  let '(arows, r4) := take_tracks (Z.to_nat nar) r3' in
                  match r4 with
                  | ni :: r4' =>
                      let ritems := take_ritems (Z.to_nat ni) r4' in
                      let f := f_of_bits in
                      let il := f_add (f pl) (f bl) in
                      let ir := f_add (f_add (f pr) (f br)) zero in
                      let it := f_add (f pt) (f bt) in
                      let ib := f_add (f_add (f pb) (f bb)) zero in
                      let pbw := f_add (f_add (f pl) (f bl)) (f_add (f pr) (f br)) in
                      let pbh := f_add (f_add (f pt) (f bt)) (f_add (f pb) (f bb)) in
                      let inset_w := f_add il ir in
                      let inset_h := f_add it ib in
                      let def_w := wk =? 0 in
                      let def_h := hk =? 0 in
                      (* outer_node_size, inner_node_size, available_grid_space *)
                      let outer_w := if def_w then Some (fmax (f w) pbw) else None in
                      let outer_h := if def_h then Some (fmax (f h) pbh) else None in
                      let inner_w0 := match outer_w with Some o => Some (f_sub o inset_w) | None => None end in
                      let inner_h0 := match outer_h with Some o => Some (f_sub o inset_h) | None => None end in
                      let grid_avail := fun (outer : option f32) (a : avail_space f32) (pbs inset : f32) =>
                                          match outer with
                                          | Some o => Definite (f_sub o inset)
                                          | None => match a with
                                                    | Definite v => Definite (f_sub (fmax v pbs) inset)
                                                    | other => other
                                                    end
                                          end in
                      let avail_w := grid_avail outer_w (dec_avail awk aw) pbw inset_w in
                      let avail_h := grid_avail outer_h (dec_avail ahk ah) pbh inset_h in
                      let jcv := dec_align jc in
                      let acv := dec_align ac in
                      let cs := setup_axis cols acols (dec_sfn gwk gwv) inner_w0 def_w (map col_aitem ritems) in
                      let rs := setup_axis rows arows (dec_sfn ghk ghv) inner_h0 def_h (map row_aitem ritems) in
                      (* first pass: columns, then rows with the column sum as the inner width *)
                      let col1 := size_axis cs avail_w inner_w0 jcv (as_items cs) (as_tracks cs) in
                      let col_sum := fsum (map base_size col1) in
                      let inner_w := match inner_w0 with Some v => Some v | None => Some col_sum end in
                      let row1 := size_axis rs avail_h inner_h0 acv (as_items rs) (as_tracks rs) in
                      let row_sum := fsum (map base_size row1) in
                      let inner_h := match inner_h0 with Some v => Some v | None => Some row_sum end in
                      (* container size *)
                      let bbox_w := fmax (match outer_w with Some _ => f w | None => f_add col_sum inset_w end) pbw in
                      let bbox_h := fmax (match outer_h with Some _ => f h | None => f_add row_sum inset_h end) pbh in
                      let content_w := fmax zero (f_sub bbox_w inset_w) in
                      let content_h := fmax zero (f_sub bbox_h inset_h) in
                      (* percentage tracks under an indefinite available grid space *)
                      let col2 := if avail_is_definite avail_w then col1 else reresolve_percent content_w col1 in
                      let row2 := if avail_is_definite avail_h then row1 else reresolve_percent content_h row1 in
                      (* re-runs.  Item order: source -> column sort -> row sort -> (column re-run) column sort *)
                      let ids0 := seq 0 (length ritems) in
                      let ord_c := sorted_ids ids0 (as_items cs) in
                      let ord_r := sorted_ids ord_c (as_items rs) in
                      let ord_c2 := sorted_ids ord_r (as_items cs) in
                      let cic := fun i => it_crosses_intrinsic (item_by_id (as_items cs) i) in   (* crosses_intrinsic_column *)
                      let changed_w := fun i => negb (mcc_queried cs inner_w0 avail_w (item_by_id (as_items cs) i)) in
                      let changed_h := fun i => negb (mcc_queried rs inner_h0 avail_h (item_by_id (as_items rs) i)) in
                      let all_clear_w := negb (avail_is_definite (dec_avail awk aw)) && existsb track_uses_percentage col2 in
                      let visited_w := visit changed_w (filter cic ord_r) in
                      let rerun_cols := all_clear_w || existsb changed_w (filter cic ord_r) in
                      let stale_w := fun i => minimum_evaluated cs (item_by_id (as_items cs) i)
                                              && negb (all_clear_w || mem i visited_w) in
                      let col3 := if rerun_cols
                                  then size_axis_with (rerun_contrib cs inner_w0 inner_w stale_w) avail_w inner_w jcv (as_items cs) col2
                                  else col2 in
                      let all_clear_h := negb (avail_is_definite (dec_avail ahk ah)) && existsb track_uses_percentage row2 in
                      let visited_h := visit changed_h (filter cic ord_c2) in
                      let rerun_rows := rerun_cols && (all_clear_h || existsb changed_h (filter cic ord_c2)) in
                      let stale_h := fun i => minimum_evaluated rs (item_by_id (as_items rs) i)
                                              && negb (all_clear_h || mem i visited_h) in
                      let row3 := if rerun_rows
                                  then size_axis_with (rerun_contrib rs inner_h0 inner_h stale_h) avail_h inner_h acv (as_items rs) row2
                                  else row2 in
                      let colf := align_tracks content_w (f pl) (f bl) col3 jcv in
                      let rowf := align_tracks content_h (f pt) (f bt) row3 acv in
                      enc_tracks (as_counts cs) colf ++ enc_tracks (as_counts rs) rowf
                        ++ [f_to_bits bbox_w; f_to_bits bbox_h]
                        ++ flat_map (fun p => let '(ri, (ci, rwi)) := p in
                                              [f_to_bits (item_offset colf ci (r_ml ri)); f_to_bits (item_offset rowf rwi (r_mt ri))])
                             (combine ritems (combine (as_items cs) (as_items rs)))
                  | _ => []
                  end
              | _ => []
              end
          | _ => []
          end
      | _ => []
      end
  | _ => []
  end.
