(* Grid track sizing step 11.5 `resolve_intrinsic_track_sizes` in full (C09, stage 2), generic over the number
   structure.  Definitions only.

   Transcribed by hand from src/compute/grid/track_sizing.rs:
     ItemBatcher::next, cmp_by_cross_flex_then_span_then_start          sort_items, next_batch, batch_loop
     IntrisicSizeMeasurer::{min_content,max_content,minimum}_contribution  min_content_contribution, ... (oracle + margins)
     GridItem::spanned_track_limit  (types/grid_item.rs)                  spanned_track_limit
     resolve_intrinsic_track_sizes                                         span1_item / span1_finish (the span-1 fast path),
                                                                           step_minimums .. step_max_content_maximums,
                                                                           process_batch, resolve_intrinsic_track_sizes
     distribute_item_space_to_growth_limit                                 same name
     flush_planned_growth_limit_increases                                  same name
   and reusing from Model/GridTracks.v: distribute_space_up_to_limits, distribute_item_space_to_base_size(_inner),
   flush_planned_base (= flush_planned_base_size_increases), the track record and the sizing-function predicates.

   The items of the axis are records of what the code reads from a `GridItem`; the sizes of their contents enter through
   an oracle `contrib : item -> ckind -> T` standing for the value returned by
   `GridItem::{min_content,max_content,minimum}_contribution_cached` (the model adds the item's margin sum exactly where
   IntrisicSizeMeasurer does).  Float operations are in the order of the Rust code (`Iterator::sum` = fsum, folds from
   -0.0).  Loops carry fuel (Proofs/GridIntrinsicProofs.v: the fuel used here is enough). *)
From Coq Require Import ZArith NArith QArith Bool List.
From TV Require Import Num.Num Gen.GridTracksGen Model.GridTracks.
Import ListNotations.

(* which of the three cached contributions of an item is asked for *)
Inductive ckind := KMinContent | KMaxContent | KMinimum.

Record item (T : Type) := mk_item {
  it_id : nat;                 (* position in the container's child list (names the item for the oracle) *)
  it_line : Z;                 (* placement(axis).start: origin-zero grid line (third sort key) *)
  it_span : nat;               (* placement(axis).span() *)
  it_start : nat;              (* placement_indexes(axis).start: index of the start line in the track vector *)
  it_end : nat;                (* placement_indexes(axis).end *)
  it_crosses_flex : bool;      (* crosses_flexible_track(axis) *)
  it_crosses_intrinsic : bool; (* crosses_intrinsic_track(axis) *)
  it_scroll : bool;            (* overflow.get(axis).is_scroll_container() *)
  it_margin : T;               (* margins_axis_sums_with_baseline_shims(..).get(axis) *)
}.
Arguments mk_item {T}.
Arguments it_id {T}. Arguments it_line {T}. Arguments it_span {T}. Arguments it_start {T}. Arguments it_end {T}.
Arguments it_crosses_flex {T}. Arguments it_crosses_intrinsic {T}. Arguments it_scroll {T}. Arguments it_margin {T}.

Section GridIntrinsic.
  Context {T : Type} `{Num T}.
  Local Open Scope num_scope.

  Notation track := (track T).
  Notation item := (item T).

  (* ---- the item's tracks: axis_tracks[item.track_range_excluding_lines(axis)] = (start + 1) .. end *)
  Definition range_start (it : item) : nat := S (it_start it).
  Definition range_len (it : item) : nat := (it_end it - S (it_start it))%nat.
  Definition item_slice (it : item) (tracks : list track) : list track := slice tracks (range_start it) (range_len it).
  (* run `f` on the item's sub-slice in place *)
  Definition on_slice (it : item) (f : list track -> list track) (tracks : list track) : list track :=
    firstn (range_start it) tracks ++ f (item_slice it tracks) ++ skipn (range_start it + range_len it) tracks.

  (* ---- items.sort_by(cmp_by_cross_flex_then_span_then_start(axis)): a stable sort *)
  Definition item_lt (a b : item) : bool :=       (* cmp(a, b) == Ordering::Less *)
    match it_crosses_flex a, it_crosses_flex b with
    | false, true => true
    | true, false => false
    | _, _ =>
        if Nat.ltb (it_span a) (it_span b) then true
        else if Nat.ltb (it_span b) (it_span a) then false
        else Z.ltb (it_line a) (it_line b)
    end.
  Fixpoint insert_item (x : item) (l : list item) : list item :=
    match l with
    | [] => [x]
    | y :: r => if item_lt x y then x :: y :: r else y :: insert_item x r
    end.
  Definition sort_items (items : list item) : list item := fold_left (fun acc x => insert_item x acc) items [].

  Section WithOracle.
    Variable contrib : item -> ckind -> T.
    Variable inner : option T.          (* axis_inner_node_size = inner_node_size.get(axis) *)
    Variable avail : avail_space T.     (* axis_available_grid_space *)

    (* IntrisicSizeMeasurer: cached contribution + margin sum of the axis *)
    Definition min_content_contribution (it : item) : T := contrib it KMinContent + it_margin it.
    Definition max_content_contribution (it : item) : T := contrib it KMaxContent + it_margin it.
    Definition minimum_contribution_of (it : item) : T := contrib it KMinimum + it_margin it.

    Definition is_none {A} (o : option A) : bool := match o with None => true | Some _ => false end.
    Definition maybe_min (x : T) (o : option T) : T := match o with Some v => fmin x v | None => x end.

    (* GridItem::spanned_track_limit *)
    Definition spanned_track_limit (it : item) (tracks : list track) : option T :=
      let sl := item_slice it tracks in
      if forallb (fun t => negb (is_none (definite_limit inner (maxf t)))) sl
      then Some (fsum (map (fun t => match definite_limit inner (maxf t) with Some v => v | None => zero end) sl))
      else None.

    (* the QUIRK: under a min-/max-content constraint and for items that are not scroll containers the limited
       min-content contribution replaces the minimum contribution *)
    Definition intrinsic_minimum_space (it : item) (limit : option T) : T :=
      match avail with
      | Definite _ => minimum_contribution_of it
      | _ =>
          if negb (it_scroll it) then
            let axis_minimum_size := minimum_contribution_of it in
            let axis_min_content_size := min_content_contribution it in
            fmax (maybe_min axis_min_content_size limit) axis_minimum_size
          else minimum_contribution_of it
      end.

    (* ---- step 2 of 11.5: the fast path for a batch of span-1 items that cross no flexible track *)
    Definition span1_item (it : item) (t : track) : track :=
      let new_base_size :=
        match minf t with
        | SMinContent => fmax (base_size t) (min_content_contribution it)
        | SPercent _ => if is_none inner then fmax (base_size t) (min_content_contribution it) else base_size t
        | SMaxContent => fmax (base_size t) (max_content_contribution it)
        | SAuto => fmax (base_size t) (intrinsic_minimum_space it (definite_limit inner (maxf t)))
        | SLength _ => base_size t
        | _ => base_size t             (* unreachable!(): fr / fit-content are never min track sizing functions *)
        end in
      let t1 := set_base t new_base_size in
      if is_fit_content (maxf t1) then
        let p1 := if negb (it_scroll it) then fmax (limit_planned t1) (min_content_contribution it) else limit_planned t1 in
        let fit_content_limit := fit_content_limit inner t1 in
        let max_content_contribution := fmin (max_content_contribution it) fit_content_limit in
        set_limit_planned t1 (fmax p1 max_content_contribution)
      else if is_max_content_alike (maxf t1) || (uses_percentage (maxf t1) && is_none inner) then
        set_limit_planned t1 (fmax (limit_planned t1) (max_content_contribution it))
      else if is_intrinsic (maxf t1) then
        set_limit_planned t1 (fmax (limit_planned t1) (min_content_contribution it))
      else t1.

    Definition span1_finish (tracks : list track) : list track :=
      map (fun t =>
             let t1 := if zero <? limit_planned t
                       then set_limit t (if growth_limit t =? infinity then limit_planned t
                                         else fmax (growth_limit t) (limit_planned t))
                       else t in
             let t2 := set_limit_planned (set_inf_growable t1 false) zero in
             if growth_limit t2 <? base_size t2 then set_limit t2 (base_size t2) else t2) tracks.

    Definition span1_batch (batch : list item) (tracks : list track) : list track :=
      span1_finish (fold_left (fun ts it => update_nth (S (it_start it)) (span1_item it) ts) batch tracks).

    (* ---- distribute_item_space_to_growth_limit *)
    Definition limit_or_base (t : track) : T := if growth_limit t =? infinity then base_size t else growth_limit t.

    Definition distribute_item_space_to_growth_limit (space : T) (tracks : list track) (is_affected : track -> bool)
      : list track :=
      if (space =? zero) || Nat.eqb (length (filter is_affected tracks)) 0 then tracks
      else
        let track_sizes := fsum (map limit_or_base tracks) in
        let extra_space := fmax zero (space - track_sizes) in
        let grows := fun t => is_affected t
                              && (infinitely_growable t || (fit_content_limited_growth_limit inner t =? infinity)) in
        let number_of_growable_tracks := length (filter grows tracks) in
        let ts1 :=
          match number_of_growable_tracks with
          | S _ =>
              let item_incurred_increase := extra_space / of_Z (Z.of_nat number_of_growable_tracks) in
              map (fun t => if grows t then set_incurred t item_incurred_increase else t) tracks
          | O => snd (distribute_space_up_to_limits extra_space tracks is_affected (fun _ => one) limit_or_base
                        (fit_content_limit inner))
          end in
        map (fun t => let t' := if limit_planned t <? incurred t then set_limit_planned t (incurred t) else t in
                      set_incurred t' zero) ts1.

    (* flush_planned_growth_limit_increases *)
    Definition flush_planned_growth_limit_increases (set_infinitely_growable : bool) (tracks : list track) : list track :=
      map (fun t =>
             let t1 := if zero <? limit_planned t
                       then set_inf_growable
                              (set_limit t (if growth_limit t =? infinity then base_size t + limit_planned t
                                            else growth_limit t + limit_planned t))
                              set_infinitely_growable
                       else set_inf_growable t false in
             set_limit_planned t1 zero) tracks.

    (* ---- the steps of a batch that is not the span-1 fast path.  Every step is a loop over the items of the batch that
       distributes one of the item's contributions over its tracks, followed by a flush of the planned increases. *)
    Section Batch.
      Variable is_flex : bool.
      Variable use_flex_factor : bool.    (* use_flex_factor_for_distribution *)

      Definition to_base (it : item) (space : T) (affected : track -> bool) (limit : track -> T) (ct : contribution_type)
                 (tracks : list track) : list track :=
        if zero <? space
        then on_slice it (fun sl => distribute_item_space_to_base_size is_flex use_flex_factor space sl affected limit ct) tracks
        else tracks.

      Definition scroll_limit (it : item) : track -> T :=
        if it_scroll it then fit_content_limited_growth_limit inner else growth_limit.

      (* 1. intrinsic minimums: tracks with an intrinsic min track sizing function, the items' minimum contributions *)
      Definition has_intrinsic_min (t : track) : bool := is_none (definite_value inner (minf t)).
      Definition step_minimums (batch : list item) (tracks : list track) : list track :=
        flush_planned_base
          (fold_left (fun ts it =>
                        if it_crosses_intrinsic it then
                          let space := intrinsic_minimum_space it (spanned_track_limit it ts) in
                          to_base it space has_intrinsic_min (scroll_limit it) CMinimum ts
                        else ts) batch tracks).

      (* 2. content-based minimums: min-content / max-content min tracks, the items' min-content contributions *)
      Definition step_content_minimums (batch : list item) (tracks : list track) : list track :=
        flush_planned_base
          (fold_left (fun ts it =>
                        to_base it (min_content_contribution it) (fun t => is_min_or_max_content (minf t)) (scroll_limit it)
                                CMinimum ts) batch tracks).

      (* 3. max-content minimums (only under a max-content constraint) *)
      Definition has_auto_min (t : track) : bool := is_auto (minf t) && negb (is_min_content (maxf t)).
      Definition has_max_content_min (t : track) : bool := is_max_content (minf t).
      Definition step_max_content_minimums (batch : list item) (tracks : list track) : list track :=
        match avail with
        | MaxContentA =>
            flush_planned_base
              (fold_left (fun ts it =>
                            let axis_max_content_size := max_content_contribution it in
                            let limit := spanned_track_limit it ts in
                            let space := maybe_min axis_max_content_size limit in
                            if existsb has_max_content_min (item_slice it ts)
                            then to_base it space has_max_content_min (fun _ => infinity) CMaximum ts
                            else to_base it space has_auto_min (fit_content_limited_growth_limit inner) CMaximum ts)
                         batch tracks)
        | _ => tracks
        end.

      (* "in all cases": max-content min tracks, the items' max-content contributions *)
      Definition step_max_content_all (batch : list item) (tracks : list track) : list track :=
        flush_planned_base
          (fold_left (fun ts it => to_base it (max_content_contribution it) has_max_content_min growth_limit CMaximum ts)
                     batch tracks).

      (* 4. growth limit >= base size *)
      Definition fix_growth_limits (tracks : list track) : list track :=
        map (fun t => if growth_limit t <? base_size t then set_limit t (base_size t) else t) tracks.

      (* 5. intrinsic maximums *)
      Definition has_definite_value (f : sfn T) : bool :=
        match f with SLength _ => true | SPercent _ => negb (is_none inner) | _ => false end.
      Definition to_limit (it : item) (space : T) (affected : track -> bool) (tracks : list track) : list track :=
        if zero <? space then on_slice it (fun sl => distribute_item_space_to_growth_limit space sl affected) tracks
        else tracks.
      Definition step_intrinsic_maximums (batch : list item) (tracks : list track) : list track :=
        flush_planned_growth_limit_increases true
          (fold_left (fun ts it => to_limit it (min_content_contribution it) (fun t => negb (has_definite_value (maxf t))) ts)
                     batch tracks).

      (* 6. max-content maximums *)
      Definition has_max_content_max (t : track) : bool :=
        is_max_content_alike (maxf t) || (uses_percentage (maxf t) && is_none inner).
      Definition step_max_content_maximums (batch : list item) (tracks : list track) : list track :=
        flush_planned_growth_limit_increases false
          (fold_left (fun ts it => to_limit it (max_content_contribution it) has_max_content_max ts) batch tracks).

      Definition general_batch (batch : list item) (tracks : list track) : list track :=
        let ts1 := step_minimums batch tracks in
        let ts2 := step_content_minimums batch ts1 in
        let ts3 := step_max_content_minimums batch ts2 in
        let ts4 := step_max_content_all batch ts3 in
        let ts5 := fix_growth_limits ts4 in
        if is_flex then ts5
        else step_max_content_maximums batch (step_intrinsic_maximums batch ts5).
    End Batch.

    (* one `while let Some((batch, is_flex)) = batched_item_iterator.next(items)` body *)
    Definition process_batch (flex_factor_sum : T) (batch : list item) (is_flex : bool) (tracks : list track) : list track :=
      let batch_span := match batch with it :: _ => it_span it | [] => 1%nat end in
      if negb is_flex && Nat.eqb batch_span 1 then span1_batch batch tracks
      else general_batch is_flex (is_flex && neb flex_factor_sum zero) batch tracks.

    (* ItemBatcher::next.  `position` scans the whole (sorted) item list from its start; for a sorted list the result
       is never before index_offset (the Rust slice `items[index_offset..next]` would panic): that case ends the loop. *)
    Fixpoint position {A} (p : A -> bool) (l : list A) : option nat :=
      match l with
      | [] => None
      | x :: r => if p x then Some O else match position p r with Some n => Some (S n) | None => None end
      end.
    Definition next_batch (index_offset : nat) (items : list item) : option (nat * bool) :=   (* next offset, is_flex *)
      match nth_error items index_offset with
      | None => None
      | Some it =>
          let current_span := it_span it in
          let current_is_flex := it_crosses_flex it in
          let next_index_offset :=
            if current_is_flex then length items
            else match position (fun i => it_crosses_flex i || Nat.ltb current_span (it_span i)) items with
                 | Some p => p
                 | None => length items
                 end in
          if Nat.leb next_index_offset index_offset then None else Some (next_index_offset, current_is_flex)
      end.

    Fixpoint batch_loop (fuel : nat) (flex_factor_sum : T) (index_offset : nat) (items : list item) (tracks : list track)
      : list track :=
      match fuel with
      | O => tracks
      | S f =>
          match next_batch index_offset items with
          | None => tracks
          | Some (next, is_flex) =>
              let batch := firstn (next - index_offset) (skipn index_offset items) in
              let tracks' := process_batch flex_factor_sum batch is_flex tracks in
              if is_flex then tracks'        (* `if self.current_is_flex ... return None` *)
              else batch_loop f flex_factor_sum next items tracks'
          end
      end.

    Definition finish_infinite_limits (tracks : list track) : list track :=
      map (fun t => if growth_limit t =? infinity then set_limit t (base_size t) else t) tracks.

    Definition intrinsic_fuel (items : list item) : nat := S (length items).

    (* 11.5 *)
    Definition resolve_intrinsic_fuelled (fuel : nat) (items : list item) (tracks : list track) : list track :=
      let sorted := sort_items items in
      let flex_factor_sum := fsum (map flex_factor tracks) in
      finish_infinite_limits (batch_loop fuel flex_factor_sum 0 sorted tracks).
    Definition resolve_intrinsic_track_sizes (items : list item) (tracks : list track) : list track :=
      resolve_intrinsic_fuelled (intrinsic_fuel items) items tracks.

    (* the items crossing a flexible track as 11.7 (max-content branch) reads them: their tracks and the cached
       max-content contribution WITHOUT the margins (`item.max_content_contribution_cached(..)` is used directly there) *)
    Definition flex_items_of (items : list item) : list (nat * nat * T) :=
      map (fun it => (range_start it, range_len it, contrib it KMaxContent)) (filter (fun it => it_crosses_flex it) items).
  End WithOracle.

  (* ---- items that are leaves of a fixed size (the class the correspondence check runs and the witnesses use).
     GridItem::spanned_fixed_track_limit: the sum of the definite max track sizing functions of the spanned tracks *)
  Definition spanned_fixed_track_limit (inner : option T) (it : item) (tracks : list track) : option T :=
    let sl := item_slice it tracks in
    if forallb (fun t => match definite_value inner (maxf t) with Some _ => true | None => false end) sl
    then Some (fsum (map (fun t => match definite_value inner (maxf t) with Some v => v | None => zero end) sl))
    else None.

  (* the item record of a child placed at track `first` (0-based over the whole track vector) spanning `span` tracks *)
  Definition mk_axis_item (id : nat) (line : Z) (first span : nat) (scroll : bool) (margin : T) (tracks : list track) : item :=
    let st := (2 * first)%nat in
    let en := (2 * (first + span))%nat in
    let sl := slice tracks (S st) (en - S st) in
    mk_item id line span st en (existsb is_flexible sl) (existsb has_intrinsic_sizing_function sl) scroll margin.

  (* what GridItem::{min_content,max_content,minimum}_contribution_cached return for a leaf whose `size` style is the
     length sizes[id] (border-box, no padding / border / min / max / aspect ratio): its size; the minimum contribution
     is capped by spanned_fixed_track_limit *)
  Definition leaf_contrib (inner : option T) (tracks : list track) (sizes : list T) (it : item) (k : ckind) : T :=
    let size := nth (it_id it) sizes zero in
    match k with
    | KMinContent | KMaxContent => size
    | KMinimum => match spanned_fixed_track_limit inner it tracks with Some l => fmin size l | None => size end
    end.

  (* ---- items whose min-content and max-content sizes differ (measured leaves without a `size` style: "text").
     GridItem::minimum_contribution for an item without size / min_size style: overflow visible => the automatic minimum
     size, i.e. the min-content contribution when `use_content_based_minimum` (sic: `spans_auto_min_track` and
     `spans_a_flexible_track` look at ALL tracks of the axis) else 0; a scroll container => 0; then capped by
     spanned_fixed_track_limit.  content = (min-content size, max-content size, has a definite `size` style) per item id *)
  Definition automatic_minimum (it : item) (tracks : list track) (min_content : T) : T :=
    let spans_auto_min_track := existsb (fun t => is_auto (minf t)) tracks in
    let only_span_one_track := Nat.eqb (range_len it) 1 in
    let spans_a_flexible_track := existsb (fun t => is_fr (maxf t)) tracks in
    if spans_auto_min_track && (only_span_one_track || negb spans_a_flexible_track) then min_content else zero.

  Definition content_contrib (inner : option T) (tracks : list track) (content : list (T * T * bool)) (it : item) (k : ckind) : T :=
    let '(cmin, cmax, has_size) := nth (it_id it) content (zero, zero, true) in
    match k with
    | KMinContent => cmin
    | KMaxContent => cmax
    | KMinimum =>
        let size := if has_size then cmin
                    else if it_scroll it then zero
                    else automatic_minimum it tracks cmin in
        match spanned_fixed_track_limit inner it tracks with Some l => fmin size l | None => size end
    end.

  (* track_sizing_algorithm with the whole of 11.5 *)
  Definition track_sizing_algorithm_full (contrib : item -> ckind -> T) (axis_min axis_max : option T) (stretch : bool)
             (avail : avail_space T) (inner : option T) (items : list item) (tracks : list track) : list track :=
    track_sizing_algorithm axis_min axis_max stretch avail inner
      (resolve_intrinsic_track_sizes contrib inner avail items) (flex_items_of contrib items) tracks.

End GridIntrinsic.
