(* The Prog-level kit for the relational reading of the grid sizing phase (Model/GridAlg.v `Prog`, Model/GridAlgRel.v `ProgRel`): one lemma per
   combinator -- pbind, pmap_acc, run (a related program under related continuations is a related resumption) --, monotonicity in the result
   relation, and the small facts about the shared records (get_ax / set_ax, caches). *)
From Coq Require Import QArith Bool List ZArith Lia.
From TV Require Import Num.Num Num.QNum Model.Common Model.Leaf Gen.GridTracksGen Model.GridTracks Model.GridIntrinsic.
From TV Require Import Model.GridAlgBase Model.GridAlg Model.FlexAlgBase Model.FlexAlgRel Model.GridAlgRel.
From TV Require Import Model.Scale Model.ScaleGrid Model.Engine Model.EngineRel.
From TV Require Import Proofs.ScalePrim Proofs.ScaleKit Proofs.ScaleProofs.
Import ListNotations.
Close Scope Z_scope.

Section Kit.
  Variable k : Q.
  Hypothesis Hk : (0 < k)%Q.
  Notation L := (sc k).
  Notation O := (op_rel (sc k)).
  Notation AV := (av_rel (sc k)).
  Notation AR := (AlgRel (GIn XQ) (LayoutOutput XQ) (GLay XQ) (fin_rel k) (output_rel k) (flay_rel k)).

  (* ---- axes *)
  Lemma rel_get_ax {X} (R : X -> X -> Prop) s s' ax : sz_rel R s s' -> R (get_ax s ax) (get_ax s' ax).
  Proof. intros [H1 H2]. destruct ax; assumption. Qed.
  Lemma rel_set_ax {X} (R : X -> X -> Prop) s s' ax v v' : sz_rel R s s' -> R v v' -> sz_rel R (set_ax s ax v) (set_ax s' ax v').
  Proof. intros [H1 H2] Hv. destruct ax; split; assumption. Qed.
  Lemma rel_size_NONE : sz_rel O (@size_NONE XQ) size_NONE.
  Proof. split; exact I. Qed.

  (* ---- programs *)
  Lemma progrel_mono {A} (RA RB : A -> A -> Prop) p p' : (forall a a', RA a a' -> RB a a') -> ProgRel k RA p p' -> ProgRel k RB p p'.
  Proof.
    intros Himp. induction 1 as [a a' Ha|c kn kn' pa pa' av av' ax f f' Hkn Hpa Hav Hf IH|c pa pa' f f' Hpa Hf IH].
    - constructor. apply Himp. exact Ha.
    - constructor; assumption.
    - constructor; assumption.
  Qed.

  Lemma pbind_rel {A B} (RA : A -> A -> Prop) (RB : B -> B -> Prop) p p' (g g' : A -> Prog B) :
    ProgRel k RA p p' -> (forall a a', RA a a' -> ProgRel k RB (g a) (g' a')) -> ProgRel k RB (pbind p g) (pbind p' g').
  Proof.
    intros Hp Hg. induction Hp as [a a' Ha|c kn kn' pa pa' av av' ax f f' Hkn Hpa Hav Hf IH|c pa pa' f f' Hpa Hf IH]; cbn [pbind].
    - apply Hg. exact Ha.
    - constructor; assumption.
    - constructor; assumption.
  Qed.

  Lemma pret_rel {A} (RA : A -> A -> Prop) a a' : RA a a' -> ProgRel k RA (PRet a) (PRet a').
  Proof. apply PR_ret. Qed.

  Definition pair_rel {X Y} (RX : X -> X -> Prop) (RY : Y -> Y -> Prop) (p p' : X * Y) : Prop := RX (fst p) (fst p') /\ RY (snd p) (snd p').

  Lemma pmap_acc_rel {S X} (RS : S -> S -> Prop) (RX : X -> X -> Prop) (f f' : S -> X -> Prog (S * X)) :
    (forall s s' x x', RS s s' -> RX x x' -> ProgRel k (pair_rel RS RX) (f s x) (f' s' x')) ->
    forall l l', Forall2 RX l l' -> forall s s', RS s s' -> ProgRel k (pair_rel RS (Forall2 RX)) (pmap_acc f l s) (pmap_acc f' l' s').
  Proof.
    intros Hf l l' Hl. induction Hl as [|x x' r r' Hx Hr IH]; intros s s' Hs; cbn [pmap_acc].
    - constructor. split; [exact Hs|constructor].
    - eapply pbind_rel; [apply Hf; eassumption|]. intros [s1 x1] [s1' x1'] [Hs1 Hx1]. cbn [fst snd] in *.
      eapply pbind_rel; [apply IH; exact Hs1|]. intros [s2 r2] [s2' r2'] [Hs2 Hr2]. cbn [fst snd] in *.
      constructor. split; cbn [fst snd]; [exact Hs2|constructor; assumption].
  Qed.

  (* ---- the queries of the sizing phase *)
  Lemma rel_measure_input kn kn' pa pa' av av' ax : sz_rel O kn kn' -> sz_rel O pa pa' -> sz_rel AV av av' ->
    fin_rel k (measure_input kn pa av ax) (measure_input kn' pa' av' ax).
  Proof. intros. unfold fin_rel, measure_input. cbn. repeat split; try reflexivity; try assumption; apply H || apply H0 || apply H1. Qed.
  Lemma rel_baseline_input pa pa' : sz_rel O pa pa' -> fin_rel k (baseline_input pa) (baseline_input pa').
  Proof. intros [H1 H2]. unfold fin_rel, baseline_input. cbn. repeat split; try reflexivity; try assumption; exact I. Qed.

  (* a related sizing program under related continuations is a related resumption *)
  Lemma run_rel {A} (RA : A -> A -> Prop) ok p p' (K K' : A -> Alg (GIn XQ) (LayoutOutput XQ) (GLay XQ)) :
    ProgRel k RA p p' -> (forall a a', RA a a' -> AR (K a) (K' a')) -> AR (run ok p K) (run ok p' K').
  Proof.
    intros Hp HK. induction Hp as [a a' Ha|c kn kn' pa pa' av av' ax f f' Hkn Hpa Hav Hf IH|c pa pa' f f' Hpa Hf IH]; cbn [run].
    - apply HK. exact Ha.
    - destruct (ok c).
      + apply AR_query; [apply rel_measure_input; assumption|]. intros o o' Ho. apply IH.
        destruct Ho as (Hsz & _). apply rel_get_ax. exact Hsz.
      + apply IH. apply sc_zero.
    - destruct (ok c).
      + apply AR_query; [apply rel_baseline_input; assumption|]. intros o o' Ho. destruct Ho as (Hsz & _ & Hb & _).
        apply IH; [apply Hsz|apply Hb].
      + apply IH; [apply sc_zero|exact I].
  Qed.
End Kit.
