(* Exact memo keys.  The cfg(taffy_verif) hook keys the cache by the Debug string of the complete LayoutInput: 0.0 and -0.0 are different
   keys, NaN is one key.  `f32_seqb` is that equality on binary32 (Flocq's BinarySingleNaN has one NaN): equality of representations.
   `xq_seqb` is the equality of representations on the exact instance (numerator and denominator; 1/2 and 2/4 are different keys: a key that
   is finer than necessary only misses more often).  Both are EXACT: equal keys are equal inputs (Proofs/TaffyKey.v), which is what the
   engine theorems of C01 / C15 / C17 ask of the memo.  Definitions only. *)
From Coq Require Import ZArith QArith Bool.
From Flocq Require Import IEEE754.BinarySingleNaN.
From TV Require Import Num.F32 Num.QNum.

Definition f32_seqb (x y : f32) : bool :=
  match x, y with
  | B754_zero s, B754_zero s' => Bool.eqb s s'
  | B754_infinity s, B754_infinity s' => Bool.eqb s s'
  | B754_nan, B754_nan => true
  | B754_finite s m e _, B754_finite s' m' e' _ => Bool.eqb s s' && Pos.eqb m m' && Z.eqb e e'
  | _, _ => false
  end.

Definition xq_seqb (x y : XQ) : bool :=
  match x, y with
  | Fin a, Fin b => Z.eqb (Qnum a) (Qnum b) && Pos.eqb (Qden a) (Qden b)
  | PInf, PInf | NInf, NInf | XNaN, XNaN => true
  | _, _ => false
  end.
