(* Event-level tie between the engine skeleton over the cache INTERFACE (Model/EngineReal.v `gmemo`) and the implementation
   WITHOUT the exact-key hook (notes/REALHIST.md).

   (1) TRACED gmemo: the same recursion as `gmemo` / `grun_memo` / `ghide`, additionally returning the events of the cfg(taffy_verif)
       trace hook (the `event` type of Model/EngineReplay.v).  Proofs/EngineReplayReal.v: forgetting the events gives exactly `gmemo`
       (`gmemo_traced_fst`), for every cache behind the interface.
   (2) REAL REPLAY instance: S := (node id, style version, display:none), In := input id 3*k + run mode (k numbers the COMPLETE
       LayoutInputs, so inputs that the real key conflates stay distinct), the cache := `rcache` of Model/EngineReal.v = src/tree/cache.rs,
       whose hit/miss is decided by `Cache.compat` (Model/Cache.v, binary32) on
           key_of i  := the (known_dimensions, available_space) of input k, read from the KEY TABLE of the case
           osize o   := the size carried by the output name
       Out := N, an output NAME  id * 2^64 + (width bits) * 2^32 + (height bits):  id 0 = an output of the form
       LayoutOutput::from_outer_size(size) (HIDDEN = 0 = from_outer_size(ZERO)), id >= 2 = the hash-consed evaluation record that
       produced it (harness/src/engev.rs), 1 = err_out.  `from_outer s` := the name with id 0 and the bits of s: what a ComputeSize hit
       returns.  A PerformLayout hit returns the stored name itself (`ranswer`).
       `algo` := the script table of Model/EngineReplay.v (`r_algo`), unchanged.
   Definitions only. *)
From Coq Require Import List Bool Arith NArith ZArith Lia.
From TV Require Import Num.Num Num.F32 Gen.CacheGen Model.Cache Model.Engine Model.EngineReal Model.EngineReplay.
Import ListNotations.

Section GTraced.
  Variables (S In Out Lay : Type).
  Variable mode : In -> RunMode.
  Variable is_none : S -> bool.
  Variable hidden_out : Out.
  Variable zero_lay : Lay.
  Variable algo : S -> list S -> In -> Alg In Out Lay.
  Variable mcalls : S -> list S -> In -> N.
  Variable C : Type.
  Variable cget : C -> In -> option Out.
  Variable clossy : C -> In -> bool.
  Variable cstore : C -> In -> Out -> C.
  Variable cclear : C -> C.
  Notation tree := (gtree S Lay C).
  Notation ev := (event S In).

  (* compute_hidden_layout: Hidden{node}; cache_clear; set_unrounded_layout(node, zero); then every child in order *)
  Fixpoint ghide_tr (t : tree) : list ev :=
    match t with GNode _ _ _ s _ _ _ kids => EHidden S In s :: ESetLayout S In s :: flat_map ghide_tr kids end.

  Fixpoint grun_memo_tr (e : tree -> In -> option (Out * tree * list ev)) (kids : list tree) (a : Alg In Out Lay)
    : option (Out * list tree * list ev) :=
    match a with
    | Ret _ _ _ o => Some (o, kids, [])
    | Query _ _ _ c i k =>
        match nth_error kids c with
        | Some t =>
            match e t i with
            | Some (o, t', e1) =>
                match grun_memo_tr e (replace_nth c t' kids) (k o) with
                | Some (o', ks, e2) => Some (o', ks, e1 ++ e2)
                | None => None
                end
            | None => None
            end
        | None => None
        end
    | SetLayout _ _ _ c l k =>
        match nth_error kids c with
        | Some t =>
            match grun_memo_tr e (replace_nth c (gset_lay S Lay C t l) kids) k with
            | Some (o', ks, e2) => Some (o', ks, ESetLayout S In (gstyle S Lay C t) :: e2)
            | None => None
            end
        | None => None
        end
    end.

  Fixpoint gmemo_tr (fuel : nat) (t : tree) (i : In) : option (Out * tree * list ev) :=
    match fuel with
    | O => None
    | Datatypes.S f =>
        match t with
        | GNode _ _ _ s c l n kids =>
            match mode i with
            | PerformHiddenLayout => Some (hidden_out, ghide S Lay zero_lay C cclear t, ghide_tr t)
            | _ =>
                match cget c i with
                | Some o => Some (o, GNode S Lay C s c l (st_hit (clossy c i) n) kids, [EQuery S In s i true; EReturn S In s])
                | None =>
                    if is_none s then
                      Some (hidden_out,
                            GNode S Lay C s (cstore (cclear c) i hidden_out) zero_lay (st_eval 0 n) (map (ghide S Lay zero_lay C cclear) kids),
                            EQuery S In s i false :: ghide_tr t ++ [EReturn S In s])
                    else
                      match grun_memo_tr (gmemo_tr f) kids (algo s (map (gstyle S Lay C) kids) i) with
                      | Some (o, kids', e) =>
                          Some (o, GNode S Lay C s (cstore c i o) l (st_eval (mcalls s (map (gstyle S Lay C) kids) i) n) kids',
                                EQuery S In s i false :: e ++ [EReturn S In s])
                      | None => None
                      end
                end
            end
        end
    end.
End GTraced.

(* ---------------------------------------------------------------------------------------------------------------- *)
(* the real replay instance *)
Definition two32 : N := 4294967296%N.
Definition two64 : N := 18446744073709551616%N.
Definition out_id (o : ROut) : N := (o / two64)%N.
Definition out_wbits (o : ROut) : Z := Z.of_N ((o / two32) mod two32)%N.
Definition out_hbits (o : ROut) : Z := Z.of_N (o mod two32)%N.

(* LayoutOutput.size of an output name *)
Definition rr_osize (o : ROut) : Cache.size f32 := {| width := f_of_bits (out_wbits o); height := f_of_bits (out_hbits o) |}.
(* LayoutOutput::from_outer_size: id 0 *)
Definition rr_from_outer (s : Cache.size f32) : ROut :=
  (Z.to_N (f_to_bits (width s)) * two32 + Z.to_N (f_to_bits (height s)))%N.
(* ghost vocabulary of `rlossy`: with `is_outer := fun _ => true` the counter `n_lossy` counts exactly the hits answered by an entry that
   was stored for ANOTHER complete input (key conflation); whether a ComputeSize hit loses the other fields of the stored output
   is not visible in the names *)
Definition rr_is_outer (o : ROut) : bool := true.

(* key table: the key projection of input k at position k *)
Definition ktable := list (Cache.key f32).
Definition rr_dummy_key : Cache.key f32 := {| kd_w := None; kd_h := None; av_w := MaxContent; av_h := MaxContent |}.
Definition rr_key_of (kt : ktable) (i : RIn) : Cache.key f32 := nth (N.to_nat (i / 3)) kt rr_dummy_key.

Definition rr_cache : Type := rcache RIn ROut.
Notation rrtree := (gtree RS RLay rr_cache).

Definition rr_get (kt : ktable) := rget RIn ROut r_mode (rr_key_of kt) rr_osize rr_from_outer.
Definition rr_lossy (kt : ktable) := rlossy RIn ROut r_mode (rr_key_of kt) rr_osize N.eqb rr_is_outer.
Definition rr_store (kt : ktable) := rstore RIn ROut r_mode (rr_key_of kt).
Definition rr_clear := rclear RIn ROut.
Definition rr_dirty := rdirty RIn ROut.
Definition rr_new := rnew RIn ROut.

Definition rr_mcalls (s : RS) (st : list RS) (i : RIn) : N := 0%N.

(* memo_real of Model/EngineReal.v for this instance, and its traced version *)
Definition rr_memo (tb : table) (kt : ktable) :=
  memo_real RS RIn ROut RLay r_mode rs_none r_hidden_out tt (r_algo tb) rr_mcalls (rr_key_of kt) rr_osize rr_from_outer N.eqb rr_is_outer.
Definition rr_memo_tr (tb : table) (kt : ktable) :=
  gmemo_tr RS RIn ROut RLay r_mode rs_none r_hidden_out tt (r_algo tb) rr_mcalls rr_cache (rr_get kt) (rr_lossy kt) (rr_store kt) rr_clear.
