(* Grid track initialisation and sizing (C09), generic over the number structure.  Definitions only.

   Transcribed by hand from
     src/compute/grid/explicit_grid.rs   compute_explicit_grid_size_in_axis, initialize_grid_tracks, create_implicit_tracks
     src/compute/grid/track_sizing.rs    initialize_track_sizes, distribute_space_up_to_limits, maximise_tracks,
                                         find_size_of_fr, expand_flexible_tracks, stretch_auto_tracks,
                                         distribute_item_space_to_base_size, track_sizing_algorithm
                                         (step 11.5 resolve_intrinsic_track_sizes: only for items spanning one track whose
                                          three contributions are known numbers -- `resolve_intrinsic_span1`)
     src/compute/grid/alignment.rs       align_tracks  (+ compute/common/alignment.rs)
     src/compute/grid/types/grid_track.rs
   with the THRESHOLD constants, the track-counting tables and the AlignContent variants taken from Gen/GridTracksGen.v
   (regenerated from the source on every run).  Float operations are in the order of the Rust code; `Iterator::sum`
   is `fsum` (folds from -0.0).  Loops carry fuel; `GridTracksProofs` shows the fuel used here is enough over XQ. *)
From Coq Require Import ZArith NArith QArith Bool List.
From TV Require Import Num.Num Gen.GridTracksGen.
Import ListNotations.

Inductive track_kind := KTrack | KGutter.
Inductive repetition := RCount (c : N) | RAutoFill | RAutoFit.
Record track_counts := mk_counts { negative_implicit : N; explicit : N; positive_implicit : N }.
Definition counts_len (c : track_counts) : N := (negative_implicit c + explicit c + positive_implicit c)%N.

Section GridTracks.
  Context {T : Type} `{Num T}.
  Local Open Scope num_scope.

  (* MinTrackSizingFunction / MaxTrackSizingFunction (one type; a min function is never fr / fit-content) *)
  Inductive sfn :=
  | SLength (v : T) | SPercent (v : T) | SFr (v : T) | SFitPx (v : T) | SFitPct (v : T)
  | SAuto | SMinContent | SMaxContent.

  Definition nrt : Type := (sfn * sfn)%type.          (* NonRepeatedTrackSizingFunction = MinMax<min, max> *)
  Inductive tsf := TSingle (t : nrt) | TRepeat (r : repetition) (ts : list nrt).

  Record track := mk_track {
    kind : track_kind;
    is_collapsed : bool;
    minf : sfn;
    maxf : sfn;
    offset : T;
    base_size : T;
    growth_limit : T;
    incurred : T;                 (* item_incurred_increase *)
    base_planned : T;             (* base_size_planned_increase *)
    limit_planned : T;            (* growth_limit_planned_increase *)
    infinitely_growable : bool;
  }.

  Definition new_track (k : track_kind) (mn mx : sfn) : track :=
    mk_track k false mn mx zero zero zero zero zero zero false.
  Definition gutter (gap : sfn) : track := new_track KGutter gap gap.
  Definition collapse (t : track) : track :=
    mk_track (kind t) true (SLength zero) (SLength zero) (offset t) (base_size t) (growth_limit t) (incurred t)
             (base_planned t) (limit_planned t) (infinitely_growable t).
  Definition set_base (t : track) (v : T) : track :=
    mk_track (kind t) (is_collapsed t) (minf t) (maxf t) (offset t) v (growth_limit t) (incurred t)
             (base_planned t) (limit_planned t) (infinitely_growable t).
  Definition set_limit (t : track) (v : T) : track :=
    mk_track (kind t) (is_collapsed t) (minf t) (maxf t) (offset t) (base_size t) v (incurred t)
             (base_planned t) (limit_planned t) (infinitely_growable t).
  Definition set_incurred (t : track) (v : T) : track :=
    mk_track (kind t) (is_collapsed t) (minf t) (maxf t) (offset t) (base_size t) (growth_limit t) v
             (base_planned t) (limit_planned t) (infinitely_growable t).
  Definition set_base_planned (t : track) (v : T) : track :=
    mk_track (kind t) (is_collapsed t) (minf t) (maxf t) (offset t) (base_size t) (growth_limit t) (incurred t)
             v (limit_planned t) (infinitely_growable t).
  Definition set_limit_planned (t : track) (v : T) : track :=
    mk_track (kind t) (is_collapsed t) (minf t) (maxf t) (offset t) (base_size t) (growth_limit t) (incurred t)
             (base_planned t) v (infinitely_growable t).
  Definition set_inf_growable (t : track) (b : bool) : track :=
    mk_track (kind t) (is_collapsed t) (minf t) (maxf t) (offset t) (base_size t) (growth_limit t) (incurred t)
             (base_planned t) (limit_planned t) b.
  Definition set_offset (t : track) (v : T) : track :=
    mk_track (kind t) (is_collapsed t) (minf t) (maxf t) v (base_size t) (growth_limit t) (incurred t)
             (base_planned t) (limit_planned t) (infinitely_growable t).

  (* ---- predicates on sizing functions (CompactLength predicates, C18) *)
  Definition is_fr (f : sfn) : bool := match f with SFr _ => true | _ => false end.
  Definition is_auto (f : sfn) : bool := match f with SAuto => true | _ => false end.
  Definition is_min_content (f : sfn) : bool := match f with SMinContent => true | _ => false end.
  Definition is_max_content (f : sfn) : bool := match f with SMaxContent => true | _ => false end.
  Definition is_fit_content (f : sfn) : bool := match f with SFitPx _ | SFitPct _ => true | _ => false end.
  Definition is_intrinsic (f : sfn) : bool :=
    match f with SAuto | SMinContent | SMaxContent | SFitPx _ | SFitPct _ => true | _ => false end.
  Definition is_max_content_alike (f : sfn) : bool :=
    match f with SAuto | SMaxContent | SFitPx _ | SFitPct _ => true | _ => false end.
  Definition is_max_or_fit_content (f : sfn) : bool :=
    match f with SMaxContent | SFitPx _ | SFitPct _ => true | _ => false end.
  Definition is_min_or_max_content (f : sfn) : bool := match f with SMinContent | SMaxContent => true | _ => false end.
  Definition is_length_or_percentage (f : sfn) : bool := match f with SLength _ | SPercent _ => true | _ => false end.
  Definition uses_percentage (f : sfn) : bool := match f with SPercent _ | SFitPct _ => true | _ => false end.
  Definition sfn_value (f : sfn) : T :=
    match f with SLength v | SPercent v | SFr v | SFitPx v | SFitPct v => v | _ => zero end.

  (* {Min,Max}TrackSizingFunction::definite_value *)
  Definition definite_value (parent : option T) (f : sfn) : option T :=
    match f with
    | SLength v => Some v
    | SPercent v => match parent with Some s => Some (v * s) | None => None end
    | _ => None
    end.
  (* MaxTrackSizingFunction::definite_limit *)
  Definition definite_limit (parent : option T) (f : sfn) : option T :=
    match f with
    | SFitPx v => Some v
    | SFitPct v => match parent with Some s => Some (v * s) | None => None end
    | _ => definite_value parent f
    end.
  Definition has_fixed_component (t : nrt) : bool :=
    is_length_or_percentage (fst t) || is_length_or_percentage (snd t).

  Definition is_flexible (t : track) : bool := is_fr (maxf t).
  Definition flex_factor (t : track) : T := match maxf t with SFr v => v | _ => zero end.
  Definition fit_content_limit (avail : option T) (t : track) : T :=
    match maxf t with
    | SFitPx v => v
    | SFitPct v => match avail with Some s => s * v | None => infinity end
    | _ => infinity
    end.
  Definition fit_content_limited_growth_limit (avail : option T) (t : track) : T :=
    fmin (growth_limit t) (fit_content_limit avail t).
  Definition has_intrinsic_sizing_function (t : track) : bool := is_intrinsic (minf t) || is_intrinsic (maxf t).

  (* ================================================================================================================
     explicit_grid.rs *)

  Definition shape_of (e : tsf) : entry_shape :=
    match e with
    | TSingle _ => ShSingle
    | TRepeat (RCount c) ts => ShRepeatCount c (N.of_nat (length ts))
    | TRepeat RAutoFit ts => ShRepeatAutoFit (N.of_nat (length ts))
    | TRepeat RAutoFill ts => ShRepeatAutoFill (N.of_nat (length ts))
    end.
  Definition nsum (xs : list N) : N := fold_left N.add xs 0%N.
  Definition is_auto_repetition (e : tsf) : bool :=
    match e with TRepeat RAutoFit _ | TRepeat RAutoFill _ => true | _ => false end.
  Definition has_empty_repetition (e : tsf) : bool :=
    match e with TRepeat _ [] => true | _ => false end.
  Definition entry_has_fixed_component (e : tsf) : bool :=
    match e with TSingle t => has_fixed_component t | TRepeat _ ts => forallb has_fixed_component ts end.

  (* non_auto_repeating_track_count (compute_explicit_grid_size_in_axis) / non_auto_repeated_track_count (initialize_grid_tracks) *)
  Definition non_auto_count_explicit (template : list tsf) : N := nsum (map (fun e => explicit_size_entry_count (shape_of e)) template).
  Definition non_auto_count_init (template : list tsf) : N := nsum (map (fun e => init_tracks_entry_count (shape_of e)) template).

  Definition auto_repetition_count (template : list tsf) : N := N.of_nat (length (filter is_auto_repetition template)).
  Definition template_is_valid (template : list tsf) : bool :=
    let n := auto_repetition_count template in
    N.eqb n 0 || (N.eqb n 1 && forallb entry_has_fixed_component template).
  Definition repetition_definition (template : list tsf) : list nrt :=
    match find is_auto_repetition template with Some (TRepeat _ ts) => ts | _ => [] end.

  (* `x as u16` for a float: saturating, NaN -> 0.  Largest n in [0, 65535] with n <= x, by bisection (x is the
     result of floor / ceil here, so this is exact). *)
  Fixpoint to_u16_bits (bits : nat) (acc : N) (x : T) : N :=
    match bits with
    | O => acc
    | S b => let cand := (acc + N.shiftl 1 (N.of_nat b))%N in
             if of_Z (Z.of_N cand) <=? x then to_u16_bits b cand x else to_u16_bits b acc x
    end.
  Definition to_u16 (x : T) : N := if is_nan x then 0%N else to_u16_bits 16 0%N x.

  (* track_definite_value: max if definite (capped by a definite min: `max.maybe_min(min)`), else min *)
  Definition track_definite_value (parent : option T) (t : nrt) : T :=
    let mx := definite_value parent (snd t) in
    let mn := definite_value parent (fst t) in
    match mx with
    | Some m => match mn with Some n => fmin m n | None => m end
    | None => match mn with Some n => n | None => zero (* unwrap() panics: excluded by template_is_valid *) end
    end.

  (* LengthPercentage::resolve_or_zero(Some(size)) for the gap *)
  Definition resolve_gap (gap : sfn) (inner : T) : T :=
    match gap with SLength v => v | SPercent v => inner * v | _ => zero end.

  (* the number of repetitions of the auto-repeat *)
  Definition num_repetitions (template : list tsf) (inner : option T) (gap : sfn) (size_is_maximum : bool) : N :=
    match inner with
    | None => 1%N
    | Some inner_size =>
        let parent := Some inner_size in
        let rep := repetition_definition template in
        let non_repeating_used : T :=
          fsum (map (fun e => match e with
                              | TSingle t => track_definite_value parent t
                              | TRepeat (RCount c) ts => fsum (map (track_definite_value parent) ts) * of_Z (Z.of_N c)
                              | TRepeat _ _ => zero
                              end) template) in
        let gap_size := resolve_gap gap inner_size in
        let per_repetition_track_used := fsum (map (track_definite_value parent) rep) in
        let rep_len := N.of_nat (length rep) in
        let first_used := non_repeating_used + per_repetition_track_used
                          + of_Z (Z.of_N (non_auto_count_explicit template + rep_len - 1)%N) * gap_size in
        if inner_size <? first_used then 1%N
        else
          let per_repetition_gap_used := of_Z (Z.of_N rep_len) * gap_size in
          let per_repetition_used := per_repetition_track_used + per_repetition_gap_used in
          let fit := (inner_size - first_used) / per_repetition_used in
          if size_is_maximum then (to_u16 (ffloor fit) + 1)%N else (to_u16 (fceil fit) + 1)%N
    end.

  (* compute_explicit_grid_size_in_axis (u16 arithmetic as N: counts below 65536) *)
  Definition explicit_grid_size (template : list tsf) (inner : option T) (gap : sfn) (size_is_maximum : bool) : N :=
    match template with
    | [] => 0%N
    | _ =>
      if existsb has_empty_repetition template then 0%N
      else if negb (template_is_valid template) then 0%N
      else if N.eqb (auto_repetition_count template) 0 then non_auto_count_explicit template
      else (non_auto_count_explicit template
            + N.of_nat (length (repetition_definition template)) * num_repetitions template inner gap size_is_maximum)%N
    end.

  Definition track_of (t : nrt) : track := new_track KTrack (fst t) (snd t).
  Definition auto_nrt : nrt := (SAuto, SAuto).

  (* create_implicit_tracks with `auto_tracks.iter().copied().cycle().skip(offset)` (or repeat(AUTO)) *)
  Fixpoint implicit_tracks (n : nat) (autos : list nrt) (pos : nat) (gap : sfn) : list track :=
    match n with
    | O => []
    | S n' =>
        let def := match autos with [] => auto_nrt | _ => nth (Nat.modulo pos (length autos)) autos auto_nrt end in
        track_of def :: gutter gap :: implicit_tracks n' autos (S pos) gap
    end.

  (* `iter.cycle().take(n)` pushing a track and a gutter for each; auto-fit tracks without items collapse *)
  Fixpoint cycle_tracks (n : nat) (ts : list nrt) (pos : nat) (gap : sfn) (collapse_empty : bool)
           (has_items : N -> bool) (index : N) : list track :=
    match n with
    | O => []
    | S n' =>
        let def := nth (Nat.modulo pos (length ts)) ts auto_nrt in
        let c := collapse_empty && negb (has_items index) in
        let tr := track_of def in
        let gu := gutter gap in
        (if c then collapse tr else tr) :: (if c then collapse gu else gu)
          :: cycle_tracks n' ts (S pos) gap collapse_empty has_items (index + 1)%N
    end.

  (* the explicit section of initialize_grid_tracks: (tracks, next current_track_index) *)
  Fixpoint explicit_tracks (entries : list tsf) (whole : list tsf) (counts_explicit : N) (gap : sfn)
           (has_items : N -> bool) (index : N) : list track :=
    match entries with
    | [] => []
    | e :: rest =>
        let here :=
          match e with
          | TSingle t => [track_of t; gutter gap]
          | TRepeat (RCount c) ts =>
              match ts with
              | [] => []
              | _ => cycle_tracks (length ts * N.to_nat c)%nat ts 0 gap false has_items index
              end
          | TRepeat r ts =>
              match ts with
              | [] => []
              | _ =>
                let n := auto_repeated_track_count counts_explicit (non_auto_count_init whole) in
                cycle_tracks (N.to_nat n) ts 0 gap (match r with RAutoFit => true | _ => false end) has_items index
              end
          end in
        here ++ explicit_tracks rest whole counts_explicit gap has_items (index + N.of_nat (Nat.div (length here) 2))%N
    end.

  Definition collapse_first (ts : list track) : list track :=
    match ts with [] => [] | t :: r => collapse t :: r end.
  Definition collapse_last (ts : list track) : list track := rev (collapse_first (rev ts)).

  Definition initialize_grid_tracks (counts : track_counts) (template : list tsf) (autos : list nrt) (gap : sfn)
             (has_items : N -> bool) : list track :=
    let neg := N.to_nat (negative_implicit counts) in
    let negs :=
      match autos with
      | [] => implicit_tracks neg autos 0 gap
      | _ => implicit_tracks neg autos (length autos - Nat.modulo neg (length autos))%nat gap
      end in
    let expl := if (0 <? explicit counts)%N
                then explicit_tracks template template (explicit counts) gap has_items (negative_implicit counts)
                else [] in
    let poss := implicit_tracks (N.to_nat (positive_implicit counts)) autos 0 gap in
    collapse_last (collapse_first (gutter gap :: negs ++ expl ++ poss)).

  (* ================================================================================================================
     track_sizing.rs *)

  Definition initialize_track_sizes (inner : option T) (tracks : list track) : list track :=
    map (fun t =>
           let b := match definite_value inner (minf t) with Some v => v | None => zero end in
           let g := match definite_value inner (maxf t) with Some v => v | None => infinity end in
           let g' := if g <? b then b else g in
           set_limit (set_base t b) g') tracks.

  Definition threshold : T := of_Q DISTRIBUTE_THRESHOLD_Q.
  Definition base_threshold : T := of_Q BASE_SIZE_THRESHOLD_Q.

  (* min_by(total_cmp): the first minimal element *)
  Definition min_by_first (xs : list T) : T :=
    match xs with [] => infinity | x :: r => fold_left (fun acc y => if y <? acc then y else acc) r x end.
  (* max_by(total_cmp).unwrap_or(0.0): the last maximal element *)
  Definition max_by_last (xs : list T) : T :=
    match xs with [] => zero | x :: r => fold_left (fun acc y => if y <? acc then acc else y) r x end.

  Section Distribute.
    Variable is_affected : track -> bool.
    Variable proportion : track -> T.
    Variable prop : track -> T.       (* track_affected_property *)
    Variable limit : track -> T.

    Definition growable (t : track) : bool := (prop t + incurred t <? limit t) && is_affected t.

    (* the `for track in tracks.iter_mut().filter(is_affected)` loop of one iteration *)
    Fixpoint apply_increase (inc : T) (space : T) (tracks : list track) : T * list track :=
      match tracks with
      | [] => (space, [])
      | t :: r =>
          if is_affected t then
            let increase := inc * proportion t in
            if (zero <? increase) && (prop t + increase <=? limit t + threshold) then
              let '(s', r') := apply_increase inc (space - increase) r in
              (s', set_incurred t (incurred t + increase) :: r')
            else let '(s', r') := apply_increase inc space r in (s', t :: r')
          else let '(s', r') := apply_increase inc space r in (s', t :: r')
      end.

    (* one iteration of the `while space_to_distribute > THRESHOLD` loop; None = the loop ends *)
    Definition distribute_step (space : T) (tracks : list track) : option (T * list track) :=
      if threshold <? space then
        let g := filter growable tracks in
        let psum := fsum (map proportion g) in
        if psum =? zero then None
        else
          let min_increase_limit := min_by_first (map (fun t => (limit t - prop t) / proportion t) g) in
          let inc := fmin min_increase_limit (space / psum) in
          Some (apply_increase inc space tracks)
      else None.

    Fixpoint distribute_loop (fuel : nat) (space : T) (tracks : list track) : T * list track :=
      match fuel with
      | O => (space, tracks)
      | S f =>
          match distribute_step space tracks with
          | None => (space, tracks)
          | Some (s', ts') => distribute_loop f s' ts'
          end
      end.
  End Distribute.

  Definition distribute_fuel (tracks : list track) : nat := (2 * length tracks + 8)%nat.

  Definition distribute_space_up_to_limits (space : T) (tracks : list track) (is_affected : track -> bool)
             (proportion prop limit : track -> T) : T * list track :=
    distribute_loop is_affected proportion prop limit (distribute_fuel tracks) space tracks.

  Inductive avail_space := Definite (v : T) | MinContentA | MaxContentA.
  Definition compute_free_space (a : avail_space) (used : T) : T :=
    match a with MaxContentA => infinity | MinContentA => zero | Definite v => v - used end.
  Definition is_definite (a : avail_space) : bool := match a with Definite _ => true | _ => false end.

  Definition flush_incurred_to_base (tracks : list track) : list track :=
    map (fun t => set_incurred (set_base t (base_size t + incurred t)) zero) tracks.

  (* 11.6 *)
  Definition maximise_tracks (inner : option T) (avail : avail_space) (tracks : list track) : list track :=
    let used := fsum (map base_size tracks) in
    let free := compute_free_space avail used in
    if free =? infinity then map (fun t => set_base t (growth_limit t)) tracks
    else if zero <? free then
      let '(_, ts) := distribute_space_up_to_limits free tracks (fun _ => true) (fun _ => one) base_size
                        (fit_content_limited_growth_limit inner) in
      flush_incurred_to_base ts
    else tracks.

  (* 11.7.1 *)
  Definition flexible_at (h : T) (t : track) : bool :=
    is_fr (maxf t) && (base_size t <=? sfn_value (maxf t) * h).
  (* (used_space, naive_flex_factor_sum) of one iteration *)
  Definition fr_sums (tracks : list track) (h : T) : T * T :=
    fold_left (fun '(u, s) t => if flexible_at h t then (u, s + sfn_value (maxf t)) else (u + base_size t, s))
              tracks (zero, zero).
  Definition fr_next (tracks : list track) (space h : T) : T :=
    let '(used, s) := fr_sums tracks h in (space - used) / fmax s one.
  Definition fr_valid (tracks : list track) (h_prev h : T) : bool :=
    forallb (fun t => if is_fr (maxf t)
                      then (base_size t <=? sfn_value (maxf t) * h) || (sfn_value (maxf t) * h_prev <? base_size t)
                      else true) tracks.
  (* (h of the previous iteration, h, loop exited through `break`) *)
  Fixpoint fr_loop (fuel : nat) (tracks : list track) (space h_prev : T) : T * T * bool :=
    match fuel with
    | O => (h_prev, h_prev, false)
    | S f =>
        let h := fr_next tracks space h_prev in
        if fr_valid tracks h_prev h then (h_prev, h, true) else fr_loop f tracks space h
    end.
  Definition fr_fuel (tracks : list track) : nat := (length tracks + 2)%nat.
  Definition fr_exit (tracks : list track) (space : T) : T * T * bool :=
    fr_loop (fr_fuel tracks) tracks space infinity.
  Definition find_size_of_fr (tracks : list track) (space : T) : T :=
    if space =? zero then zero
    else snd (fst (fr_exit tracks space)).
  (* the sum of the flex factors of the tracks treated as flexible in the final iteration of the loop *)
  Definition final_flex_factor_sum (tracks : list track) (space : T) : T :=
    snd (fr_sums tracks (fst (fst (fr_exit tracks space)))).

  Definition slice (tracks : list track) (start len : nat) : list track := firstn len (skipn start tracks).

  Definition expand_one (fraction : T) (t : track) : track :=
    if is_fr (maxf t) then set_base t (fmax (base_size t) (sfn_value (maxf t) * fraction)) else t.
  Definition apply_flex_fraction (fraction : T) (tracks : list track) : list track := map (expand_one fraction) tracks.

  (* 11.7.  `items`: for every item crossing a flexible track, (start, length) of the tracks it crosses in the track vector
     and its max-content contribution (oracle input: step 11.5 / measurement are outside the model) *)
  Definition flex_fraction (axis_min axis_max : option T) (avail : avail_space) (items : list (nat * nat * T))
             (tracks : list track) : T :=
    match avail with
    | Definite available =>
        let used := fsum (map base_size tracks) in
        let free := available - used in
        if free <=? zero then zero else find_size_of_fr tracks available
    | MinContentA => zero
    | MaxContentA =>
        let a := max_by_last (map (fun t => let f := flex_factor t in if one <? f then base_size t / f else base_size t)
                                  (filter (fun t => is_fr (maxf t)) tracks)) in
        let b := max_by_last (map (fun '(s, l, c) => find_size_of_fr (slice tracks s l) c) items) in
        let fraction := fmax a b in
        let hypothetical := fsum (map (fun t => if is_fr (maxf t)
                                                then fmax (base_size t) (sfn_value (maxf t) * fraction)
                                                else base_size t) tracks) in
        let mn := match axis_min with Some v => v | None => zero end in
        let mx := match axis_max with Some v => v | None => infinity end in
        if hypothetical <? mn then find_size_of_fr tracks mn
        else if mx <? hypothetical then find_size_of_fr tracks mx
        else fraction
    end.
  Definition expand_flexible_tracks (axis_min axis_max : option T) (avail : avail_space) (items : list (nat * nat * T))
             (tracks : list track) : list track :=
    apply_flex_fraction (flex_fraction axis_min axis_max avail items tracks) tracks.

  (* 11.8 *)
  Definition stretch_auto_tracks (axis_min : option T) (avail : avail_space) (tracks : list track) : list track :=
    let num := length (filter (fun t => is_auto (maxf t)) tracks) in
    match num with
    | O => tracks
    | _ =>
        let used := fsum (map base_size tracks) in
        let free := if is_definite avail then compute_free_space avail used
                    else match axis_min with Some s => s - used | None => zero end in
        if zero <? free then
          let extra := free / of_Z (Z.of_nat num) in
          map (fun t => if is_auto (maxf t) then set_base t (base_size t + extra) else t) tracks
        else tracks
    end.

  (* ---- 11.5.1 distribute_item_space_to_base_size (for the span-1 restriction of 11.5 below, and as a kernel) *)
  Inductive contribution_type := CMinimum | CMaximum.

  Definition distribute_item_space_to_base_size_inner (space : T) (tracks : list track) (is_affected : track -> bool)
             (proportion limit : track -> T) (ct : contribution_type) : list track :=
    if (space =? zero) || negb (existsb is_affected tracks) then tracks
    else
      let track_sizes := fsum (map base_size tracks) in
      let extra := fmax zero (space - track_sizes) in
      let '(extra1, ts1) := distribute_space_up_to_limits extra tracks is_affected proportion base_size limit in
      let ts2 :=
        if base_threshold <? extra1 then
          let filter1 := match ct with
                         | CMinimum => fun t => is_intrinsic (maxf t)
                         | CMaximum => fun t => is_max_content (minf t) || is_max_or_fit_content (maxf t)
                         end in
          let number := length (filter (fun t => is_affected t && filter1 t) ts1) in
          let filter2 := match number with O => fun _ => true | _ => filter1 end in
          snd (distribute_space_up_to_limits extra1 ts1 filter2 proportion base_size limit)
        else ts1 in
      map (fun t => let t' := if base_planned t <? incurred t then set_base_planned t (incurred t) else t in
                    set_incurred t' zero) ts2.

  Definition distribute_item_space_to_base_size (is_flex use_flex_factor : bool) (space : T) (tracks : list track)
             (is_affected : track -> bool) (limit : track -> T) (ct : contribution_type) : list track :=
    if is_flex then
      let flt := fun t => is_flexible t && is_affected t in
      if use_flex_factor then distribute_item_space_to_base_size_inner space tracks flt flex_factor limit ct
      else distribute_item_space_to_base_size_inner space tracks flt (fun _ => one) limit ct
    else distribute_item_space_to_base_size_inner space tracks is_affected (fun _ => one) limit ct.

  Definition flush_planned_base (tracks : list track) : list track :=
    map (fun t => set_base_planned (set_base t (base_size t + base_planned t)) zero) tracks.

  Fixpoint update_nth (n : nat) (f : track -> track) (ts : list track) : list track :=
    match ts, n with
    | [], _ => []
    | t :: r, O => f t :: r
    | t :: r, S n' => t :: update_nth n' f r
    end.

  (* ---- 11.5 restricted to: every item spans exactly one track; its min-content and max-content contributions are the
     same number c (a leaf with a fixed size, no margins, overflow visible); the available grid space is definite.
     item = (index of its track in the track vector, c).  The minimum contribution is c capped by a definite max
     track sizing function (GridItem::minimum_contribution with a definite `size` style). *)
  Definition minimum_contribution (inner : option T) (t : track) (c : T) : T :=
    match definite_value inner (maxf t) with Some l => fmin c l | None => c end.

  Definition span1_nonflex_item (inner : option T) (c : T) (t : track) : track :=
    let m := minimum_contribution inner t c in
    let new_base :=
      match minf t with
      | SMinContent | SMaxContent => fmax (base_size t) c
      | SPercent _ => match inner with None => fmax (base_size t) c | Some _ => base_size t end
      | SAuto => fmax (base_size t) m
      | _ => base_size t
      end in
    let t1 := set_base t new_base in
    if is_fit_content (maxf t1) then
      let p1 := fmax (limit_planned t1) c in
      let p2 := fmax p1 (fmin c (fit_content_limit inner t1)) in
      set_limit_planned t1 p2
    else if is_max_content_alike (maxf t1) || (uses_percentage (maxf t1) && match inner with None => true | _ => false end)
    then set_limit_planned t1 (fmax (limit_planned t1) c)
    else if is_intrinsic (maxf t1) then set_limit_planned t1 (fmax (limit_planned t1) c)
    else t1.

  Definition span1_nonflex_finish (tracks : list track) : list track :=
    map (fun t =>
           let t1 := if zero <? limit_planned t
                     then set_limit t (if growth_limit t =? infinity then limit_planned t
                                       else fmax (growth_limit t) (limit_planned t))
                     else t in
           let t2 := set_limit_planned (set_inf_growable t1 false) zero in
           if growth_limit t2 <? base_size t2 then set_limit t2 (base_size t2) else t2) tracks.

  Definition on_nth (i : nat) (f : list track -> list track) (tracks : list track) : list track :=
    match nth_error tracks i with
    | Some t => match f [t] with [t'] => update_nth i (fun _ => t') tracks | _ => tracks end
    | None => tracks
    end.

  Definition resolve_intrinsic_span1 (inner : option T) (items : list (nat * T)) (tracks : list track) : list track :=
    let crosses_flex := fun it : nat * T => match nth_error tracks (fst it) with Some t => is_flexible t | None => false end in
    let nonflex := filter (fun it => negb (crosses_flex it)) items in
    let flex := filter crosses_flex items in
    let flex_factor_sum := fsum (map flex_factor tracks) in
    (* batch 1: items of span 1 that do not cross a flexible track *)
    let ts1 := match nonflex with
               | [] => tracks
               | _ => span1_nonflex_finish
                        (fold_left (fun ts it => update_nth (fst it) (span1_nonflex_item inner (snd it)) ts) nonflex tracks)
               end in
    (* batch 2: all items crossing a flexible track *)
    let ts2 :=
      match flex with
      | [] => ts1
      | _ =>
        let use_ff := neb flex_factor_sum zero in
        let step (affected : track -> bool) (ct : contribution_type) (only_intrinsic minimum : bool) (ts : list track) :=
          flush_planned_base
            (fold_left (fun ts it =>
                          match nth_error ts (fst it) with
                          | Some t =>
                              if only_intrinsic && negb (has_intrinsic_sizing_function t) then ts
                              else
                                let space := if minimum then minimum_contribution inner t (snd it) else snd it in
                                if zero <? space
                                then on_nth (fst it) (fun sl => distribute_item_space_to_base_size true use_ff space sl
                                                                  affected growth_limit ct) ts
                                else ts
                          | None => ts
                          end) flex ts) in
        let a := step (fun t => match definite_value inner (minf t) with None => true | _ => false end) CMinimum true true ts1 in
        let b := step (fun t => is_min_or_max_content (minf t)) CMinimum false false a in
        let c := step (fun t => is_max_content (minf t)) CMaximum false false b in
        map (fun t => if growth_limit t <? base_size t then set_limit t (base_size t) else t) c
      end in
    map (fun t => if growth_limit t =? infinity then set_limit t (base_size t) else t) ts2.

  (* track_sizing_algorithm with step 11.5 as a parameter *)
  Definition track_sizing_algorithm (axis_min axis_max : option T) (stretch : bool) (avail : avail_space)
             (inner : option T) (intrinsic : list track -> list track) (flex_items : list (nat * nat * T))
             (tracks : list track) : list track :=
    let ts0 := initialize_track_sizes inner tracks in
    if forallb (fun t => base_size t =? growth_limit t) ts0 then ts0
    else
      let ts1 := intrinsic ts0 in
      let ts2 := maximise_tracks inner avail ts1 in
      let avail_exp := match inner with
                       | Some s => Definite s
                       | None => match avail with MinContentA => MinContentA | _ => MaxContentA end
                       end in
      let ts3 := expand_flexible_tracks axis_min axis_max avail_exp flex_items ts2 in
      if stretch then stretch_auto_tracks axis_min avail_exp ts3 else ts3.

  (* ================================================================================================================
     alignment.rs / common/alignment.rs *)

  Definition apply_alignment_fallback (free : T) (num_items : nat) (mode : align_content) (is_safe : bool) : align_content :=
    let '(mode1, safe1) :=
      if Nat.leb num_items 1 || (free <=? zero) then
        match mode with
        | AStretch => (AFlexStart, true)
        | ASpaceBetween => (AFlexStart, true)
        | ASpaceAround => (ACenter, true)
        | ASpaceEvenly => (ACenter, true)
        | m => (m, is_safe)
        end
      else (mode, is_safe) in
    if (free <=? zero) && safe1 then AStart else mode1.

  (* compute_alignment_offset with gap = 0.0 and layout_is_flex_reversed = false (as align_tracks calls it) *)
  Definition compute_alignment_offset (free : T) (num_items : nat) (mode : align_content) (is_first : bool) : T :=
    let n := of_Z (Z.of_nat num_items) in
    if is_first then
      match mode with
      | AStart | AFlexStart | AStretch | ASpaceBetween => zero
      | AEnd | AFlexEnd => free
      | ACenter => free / two
      | ASpaceAround => if zero <=? free then (free / n) / two else free / two
      | ASpaceEvenly => if zero <=? free then free / of_Z (Z.of_nat (num_items + 1)%nat) else free / two
      end
    else
      let free' := fmax free zero in
      zero + match mode with
             | ASpaceBetween => free' / of_Z (Z.of_nat (num_items - 1)%nat)
             | ASpaceAround => free' / n
             | ASpaceEvenly => free' / of_Z (Z.of_nat (num_items + 1)%nat)
             | _ => zero
             end.

  Fixpoint odd_elements (ts : list track) : list track :=    (* .skip(1).step_by(2) *)
    match ts with
    | _ :: t :: r => t :: odd_elements r
    | _ => []
    end.

  Fixpoint assign_offsets (free : T) (num_tracks : nat) (mode : align_content) (i : nat) (total : T) (ts : list track)
    : list track :=
    match ts with
    | [] => []
    | t :: r =>
        let off := if Nat.even i then zero else compute_alignment_offset free num_tracks mode (Nat.eqb i 1) in
        set_offset t (total + off) :: assign_offsets free num_tracks mode (S i) (total + off + base_size t) r
    end.

  Definition align_tracks (content_box padding_start border_start : T) (tracks : list track) (style : align_content)
    : list track :=
    let used := fsum (map base_size tracks) in
    let free := content_box - used in
    let origin := padding_start + border_start in
    let num_tracks := length (filter (fun t => negb (is_collapsed t)) (odd_elements tracks)) in
    let mode := apply_alignment_fallback free num_tracks style false in
    assign_offsets free num_tracks mode 0 origin tracks.

End GridTracks.

Arguments sfn : clear implicits.
Arguments track : clear implicits.
Arguments tsf : clear implicits.
Arguments nrt : clear implicits.
Arguments avail_space : clear implicits.
