(* Executable driver of the C13 correspondence check: the definitions the theorems are about (Model.Rounding over
   Gen.RoundingGen) instantiated at F32 and run on the harness's cases.

   case   = nops :: op_1 .. op_nops (0 disable_rounding, 1 enable_rounding, 2 compute_layout) ++ tree
   tree   = pre-order; per node: child count, order, then the 20 f32 fields of `unrounded_layout` as bit patterns
   result = pre-order; per node: order and the 20 f32 fields of `TaffyTree::layout()` after the history, as bit patterns *)
From Coq Require Import ZArith Bool List.
From TV Require Import Num.Num Num.F32 Model.Rounding.
Import ListNotations.
Open Scope Z_scope.

Definition fb := f_of_bits.

Fixpoint parse_tree (fuel : nat) (xs : list Z) : option (tree f32 * list Z) :=
  match fuel with
  | O => None
  | S fuel' =>
      match xs with
      | nc :: o :: a1 :: a2 :: a3 :: a4 :: a5 :: a6 :: a7 :: a8 :: a9 :: a10 :: a11 :: a12 :: a13 :: a14 :: a15 :: a16
           :: a17 :: a18 :: a19 :: a20 :: rest =>
          let l := mk_layout o (fb a1) (fb a2) (fb a3) (fb a4) (fb a5) (fb a6) (fb a7) (fb a8) (fb a9) (fb a10) (fb a11)
                             (fb a12) (fb a13) (fb a14) (fb a15) (fb a16) (fb a17) (fb a18) (fb a19) (fb a20) in
          (fix kids (n : nat) (fuel2 : nat) (ys : list Z) (acc : list (tree f32)) {struct fuel2} :=
             match n with
             | O => Some (Node l (rev acc), ys)
             | S n' =>
                 match fuel2 with
                 | O => None
                 | S fuel2' =>
                     match parse_tree fuel' ys with
                     | Some (c, ys') => kids n' fuel2' ys' (c :: acc)
                     | None => None
                     end
                 end
             end) (Z.to_nat nc) fuel' rest []
      | _ => None
      end
  end.

Definition enc_layout (l : layout f32) : list Z :=
  [order l; f_to_bits (location_x l); f_to_bits (location_y l); f_to_bits (size_width l); f_to_bits (size_height l);
   f_to_bits (content_size_width l); f_to_bits (content_size_height l);
   f_to_bits (scrollbar_size_width l); f_to_bits (scrollbar_size_height l);
   f_to_bits (border_left l); f_to_bits (border_right l); f_to_bits (border_top l); f_to_bits (border_bottom l);
   f_to_bits (padding_left l); f_to_bits (padding_right l); f_to_bits (padding_top l); f_to_bits (padding_bottom l);
   f_to_bits (margin_left l); f_to_bits (margin_right l); f_to_bits (margin_top l); f_to_bits (margin_bottom l)].

Fixpoint enc_tree (t : tree f32) : list Z :=
  match t with Node l cs => enc_layout l ++ flat_map enc_tree cs end.

(* Layout::new() in every slot: what a freshly built TaffyTree holds before the first compute_layout *)
Definition f0 : f32 := zero.
Definition new_layout : layout f32 := mk_layout 0 f0 f0 f0 f0 f0 f0 f0 f0 f0 f0 f0 f0 f0 f0 f0 f0 f0 f0 f0 f0.
Fixpoint blank (t : tree f32) : tree f32 := match t with Node _ cs => Node new_layout (map blank cs) end.

Definition decode_op (u : tree f32) (z : Z) : op f32 :=
  match z with 0 => DisableRounding | 1 => EnableRounding | _ => ComputeLayout u end.

Definition run_case (c : list Z) : list Z :=
  match c with
  | nops :: rest =>
      let n := Z.to_nat nops in
      let ops := firstn n rest in
      match parse_tree (S (length rest)) (skipn n rest) with
      | Some (u, []) =>
          let s0 := mk_state default_use_rounding (blank u) (blank u) in
          enc_tree (layout_of (run s0 (map (decode_op u) ops)))
      | _ => [-1]
      end
  | [] => [-2]
  end.
