(* Dirty tracking of the engine skeleton: the early exit of mark_dirty is exact, a layout pass leaves no
   box-generating node dirty, mutators keep every cache entry valid.  For every algorithm satisfying the two
   interface hypotheses named below (trace-validated against the implementation on every run):
     WF  : an algorithm never issues a hidden-mode query (only compute_hidden_layout does)
     H1  : a PerformLayout evaluation performs a PerformLayout query on every child *)
From Coq Require Import List Bool Arith Lia.
From TV Require Import Model.Engine Proofs.EngineMemo.
Import ListNotations.

Section Dirty.
  Variables (S In Out Lay : Type).
  Variable mode : In -> RunMode.
  Variable in_eqb : In -> In -> bool.
  Variable is_none : S -> bool.
  Variable hidden_out : Out.
  Variable zero_lay : Lay.
  Variable algo : S -> list S -> In -> Alg In Out Lay.

  Notation tree := (tree S In Out Lay).
  Notation Alg := (Alg In Out Lay).
  Notation cache := (cache In Out).
  Notation Node := (Node S In Out Lay).
  Notation memo := (memo S In Out Lay mode in_eqb is_none hidden_out zero_lay algo).
  Notation run_memo := (run_memo S In Out Lay).
  Notation hide := (hide S In Out Lay zero_lay).
  Notation cget := (cget In Out mode in_eqb).
  Notation cstore := (cstore In Out mode).
  Notation cempty := (cempty In Out).
  Notation is_empty := (is_empty In Out).
  Notation cache_of := (cache_of S In Out Lay).
  Notation kids_of := (kids_of S In Out Lay).
  Notation style_of := (style_of S In Out Lay).
  Notation md := (md S In Out Lay).
  Notation mark_dirty := (mark_dirty S In Out Lay).
  Notation clear_path := (clear_path S In Out Lay).
  Notation update := (update S In Out Lay).
  Notation apply_edit := (apply_edit S In Out Lay).
  Notation mutate := (mutate S In Out Lay).
  Notation final := (final In Out).
  Notation meas := (meas In Out).

  (* ---------- interface hypotheses on the algorithms ---------- *)
  Inductive WFAlg : Alg -> Prop :=
  | WF_ret o : WFAlg (Ret In Out Lay o)
  | WF_query c i k : mode i <> PerformHiddenLayout -> (forall o, WFAlg (k o)) -> WFAlg (Query In Out Lay c i k)
  | WF_set c l k : WFAlg k -> WFAlg (SetLayout In Out Lay c l k).

  (* [Visits pending a]: on every path through the resumption, each child index in [pending] receives a
     PerformLayout query before the algorithm returns *)
  Inductive Visits : list nat -> Alg -> Prop :=
  | Vis_ret o : Visits [] (Ret In Out Lay o)
  | Vis_query pending c i k :
      (forall o, Visits (match mode i with PerformLayout => remove Nat.eq_dec c pending | _ => pending end) (k o)) ->
      Visits pending (Query In Out Lay c i k)
  | Vis_set pending c l k : Visits pending k -> Visits pending (SetLayout In Out Lay c l k).

  Hypothesis WF : forall s st i, WFAlg (algo s st i).
  Hypothesis H1 : forall s st i, mode i = PerformLayout -> Visits (seq 0 (length st)) (algo s st i).

  (* ---------- invariants ---------- *)
  Definition has_final (t : tree) : Prop := final (cache_of t) <> None.

  (* Full: every node outside display:none regions has a final-layout entry (hence is not dirty) *)
  Inductive Full : tree -> Prop :=
  | Full_none s c l kids : is_none s = true -> is_empty c = false -> Full (Node s c l kids)
  | Full_node s c l kids : is_none s = false -> final c <> None -> Forall Full kids -> Full (Node s c l kids).

  (* J: a box-generating node with a final entry has a Full subtree (holds at every moment of a pass) *)
  Inductive J : tree -> Prop :=
  | J_node s c l kids :
      (is_none s = false -> final c <> None -> Forall Full kids) -> Forall J kids -> J (Node s c l kids).

  (* B: at API boundaries a box-generating node with a non-empty cache has a final entry *)
  Inductive B : tree -> Prop :=
  | B_node s c l kids :
      (is_none s = false -> is_empty c = false -> final c <> None) -> Forall B kids -> B (Node s c l kids).

  (* BH: B holds inside display:none regions *)
  Inductive BH : tree -> Prop :=
  | BH_node s c l kids : (is_none s = true -> Forall B kids) -> Forall BH kids -> BH (Node s c l kids).

  Lemma tree_ind2 (P : tree -> Prop) :
    (forall s c l kids, Forall P kids -> P (Node s c l kids)) -> forall t, P t.
  Proof.
    intros H. fix IH 1. intros [s c l kids]. apply H.
    induction kids as [|k kids IHk]; constructor; [apply IH | exact IHk].
  Qed.

  Lemma is_empty_cempty : is_empty cempty = true. Proof. reflexivity. Qed.

  Lemma is_empty_true c : is_empty c = true -> c = cempty.
  Proof. destruct c as [[p|] [|m r]]; cbn; intros H; try discriminate. reflexivity. Qed.

  Lemma final_nonempty c : final c <> None -> is_empty c = false.
  Proof. destruct c as [[p|] m]; cbn; intros H; [reflexivity|congruence]. Qed.

  (* hidden subtrees are all empty *)
  Lemma B_hide t : B (hide t).
  Proof.
    induction t as [s c l kids IH] using tree_ind2. cbn. constructor.
    - intros _ H. cbn in H. discriminate.
    - apply Forall_map. exact IH.
  Qed.
  Lemma J_hide t : J (hide t).
  Proof.
    induction t as [s c l kids IH] using tree_ind2. cbn. constructor.
    - intros _ H. cbn in H. congruence.
    - apply Forall_map. exact IH.
  Qed.
  Lemma BH_hide t : BH (hide t).
  Proof.
    induction t as [s c l kids IH] using tree_ind2. cbn. constructor.
    - intros _. apply Forall_map. apply Forall_forall. intros x _. apply B_hide.
    - apply Forall_map. exact IH.
  Qed.

  Lemma B_BH t : B t -> BH t.
  Proof.
    induction t as [s c l kids IH] using tree_ind2. intros HB. inversion HB as [s0 c0 l0 k0 Hl Hk]; subst.
    constructor; [intros _; exact Hk|].
    rewrite Forall_forall in *. intros x Hx. apply IH; auto.
  Qed.

  Lemma Full_BH_B t : Full t -> BH t -> B t.
  Proof.
    induction t as [s c l kids IH] using tree_ind2. intros HF HBH.
    inversion HBH as [s0 c0 l0 k0 Hh Hk]; subst.
    inversion HF as [s1 c1 l1 k1 Hn Hne | s1 c1 l1 k1 Hn Hfin Hfk]; subst.
    - constructor; [intros E; congruence | apply Hh; exact Hn].
    - constructor; [intros _ _; exact Hfin|].
      rewrite Forall_forall in *. intros x Hx. apply IH; auto.
  Qed.

  (* ---------- cstore / cget facts ---------- *)
  Lemma cstore_final_keep c i o : mode i <> PerformHiddenLayout -> final c <> None -> final (cstore c i o) <> None.
  Proof. intros Hm Hf. unfold Engine.cstore. destruct (mode i); cbn; congruence. Qed.

  Lemma cstore_final_perform c i o : mode i = PerformLayout -> final (cstore c i o) <> None.
  Proof. intros Hm. unfold Engine.cstore. rewrite Hm. cbn. congruence. Qed.

  Lemma cstore_final_compute c i o : mode i = ComputeSize -> final (cstore c i o) = final c.
  Proof. intros Hm. unfold Engine.cstore. rewrite Hm. reflexivity. Qed.

  Lemma cget_nonempty c i o : cget c i = Some o -> is_empty c = false.
  Proof.
    unfold Engine.cget. destruct c as [[p|] m]; cbn; [reflexivity|].
    destruct (mode i); try discriminate. destruct m; [discriminate|reflexivity].
  Qed.

  Lemma cstore_nonempty c i o : mode i <> PerformHiddenLayout -> is_empty (cstore c i o) = false.
  Proof.
    intros Hm. unfold Engine.cstore. destruct (mode i); try congruence; cbn; [reflexivity|].
    destruct (final c); reflexivity.
  Qed.

  Lemma cget_perform_final c i o : mode i = PerformLayout -> cget c i = Some o -> final c <> None.
  Proof. intros Hm H. unfold Engine.cget in H. rewrite Hm in H. destruct (final c); congruence. Qed.

  (* ---------- one evaluation preserves J and BH, keeps Full, and a PerformLayout evaluation makes Full ---------- *)
  Definition ev_good (ev : tree -> In -> option (Out * tree)) : Prop :=
    forall t i o t', mode i <> PerformHiddenLayout -> J t -> BH t -> ev t i = Some (o, t') ->
      J t' /\ BH t' /\ (Full t -> Full t') /\ (mode i = PerformLayout -> Full t').

  Lemma nth_error_replace_other {A} n m (x : A) l t :
    nth_error l n = Some t -> n <> m -> nth_error (replace_nth n x l) m = nth_error l m.
  Proof.
    unfold replace_nth. revert m l; induction n as [|n IH]; intros m [|a l] Hn Hne; cbn in Hn; try discriminate.
    - destruct m as [|m]; [congruence|reflexivity].
    - destruct m as [|m]; [reflexivity|]. cbn. apply IH; [exact Hn|congruence].
  Qed.

  (* state of the children during run_memo: all J, BH; [done] children are Full *)
  Lemma run_memo_good ev : ev_good ev ->
    forall a kids o kids' pending,
      WFAlg a -> Forall J kids -> Forall BH kids ->
      run_memo ev kids a = Some (o, kids') ->
      Forall J kids' /\ Forall BH kids' /\ length kids' = length kids /\
      (forall n t t', nth_error kids n = Some t -> nth_error kids' n = Some t' -> Full t -> Full t') /\
      (Visits pending a -> forall n t', List.In n pending -> nth_error kids' n = Some t' -> Full t').
  Proof.
    intros Hev a. induction a as [o0|c i k IH|c l k IH]; intros kids o kids' pending HWF HJ HBH H; cbn in H.
    - injection H as <- <-. repeat split; try assumption.
      + intros n t t' E1 E2. congruence.
      + intros HV. inversion HV; subst. intros n t' [].
    - inversion HWF as [|c0 i0 k0 Hm Hk|]; subst.
      destruct (nth_error kids c) as [t|] eqn:En; [|discriminate].
      destruct (ev t i) as [[o1 t1]|] eqn:Ee; [|discriminate].
      assert (HJt : J t) by (rewrite Forall_forall in HJ; apply HJ; eapply nth_error_In; eauto).
      assert (HBt : BH t) by (rewrite Forall_forall in HBH; apply HBH; eapply nth_error_In; eauto).
      destruct (Hev _ _ _ _ Hm HJt HBt Ee) as [HJ1 [HB1 [HFk HFp]]].
      assert (HJ' : Forall J (replace_nth c t1 kids)) by (apply Forall_replace_nth; assumption).
      assert (HB' : Forall BH (replace_nth c t1 kids)) by (apply Forall_replace_nth; assumption).
      specialize (IH o1 (replace_nth c t1 kids) o kids'
                     (match mode i with PerformLayout => remove Nat.eq_dec c pending | _ => pending end)
                     (Hk o1) HJ' HB' H).
      destruct IH as [R1 [R2 [R3 [R4 R5]]]].
      assert (Hlen : length (replace_nth c t1 kids) = length kids) by (eapply length_replace_nth; eauto).
      repeat split; try assumption.
      + congruence.
      + intros n u u' E1 E2 HFu.
        destruct (Nat.eq_dec c n) as [->|Hne].
        * rewrite En in E1. injection E1 as <-.
          eapply R4; [|exact E2|apply HFk; exact HFu].
          eapply nth_error_replace_same; eauto.
        * eapply R4; [|exact E2|exact HFu]. rewrite (nth_error_replace_other _ _ _ _ _ En Hne). exact E1.
      + intros HV n u' Hin E2. inversion HV as [|p0 c0 i0 k0 Hvk|]; subst.
        specialize (R5 (Hvk o1)).
        destruct (mode i) eqn:Em.
        * destruct (Nat.eq_dec c n) as [->|Hne].
          -- (* this child has just been given a PerformLayout query: Full now, and it stays Full *)
             eapply R4; [eapply nth_error_replace_same; eauto | exact E2 | apply HFp; reflexivity].
          -- apply (R5 n u'); [|exact E2]. apply in_in_remove; [congruence|exact Hin].
        * apply (R5 n u'); assumption.
        * congruence.
    - inversion HWF as [| |c0 l0 k0 Hk]; subst.
      destruct (nth_error kids c) as [t|] eqn:En; [|discriminate].
      assert (HJt : J t) by (rewrite Forall_forall in HJ; apply HJ; eapply nth_error_In; eauto).
      assert (HBt : BH t) by (rewrite Forall_forall in HBH; apply HBH; eapply nth_error_In; eauto).
      assert (HJs : J (set_lay S In Out Lay t l)) by (destruct t; inversion HJt; subst; constructor; assumption).
      assert (HBs : BH (set_lay S In Out Lay t l)) by (destruct t; inversion HBt; subst; constructor; assumption).
      assert (HFs : Full t -> Full (set_lay S In Out Lay t l)).
      { destruct t; intros HF; inversion HF; subst; [apply Full_none|apply Full_node]; assumption. }
      assert (HJ' : Forall J (replace_nth c (set_lay S In Out Lay t l) kids)) by (apply Forall_replace_nth; assumption).
      assert (HB' : Forall BH (replace_nth c (set_lay S In Out Lay t l) kids)) by (apply Forall_replace_nth; assumption).
      specialize (IH (replace_nth c (set_lay S In Out Lay t l) kids) o kids' pending Hk HJ' HB' H).
      destruct IH as [R1 [R2 [R3 [R4 R5]]]].
      assert (Hlen : length (replace_nth c (set_lay S In Out Lay t l) kids) = length kids) by (eapply length_replace_nth; eauto).
      repeat split; try assumption.
      + congruence.
      + intros n u u' E1 E2 HFu.
        destruct (Nat.eq_dec c n) as [->|Hne].
        * rewrite En in E1. injection E1 as <-.
          eapply R4; [eapply nth_error_replace_same; eauto|exact E2|apply HFs; exact HFu].
        * eapply R4; [|exact E2|exact HFu]. rewrite (nth_error_replace_other _ _ _ _ _ En Hne). exact E1.
      + intros HV. inversion HV; subst. apply R5. assumption.
  Qed.

  Lemma Forall_Full_nth (kids kids' : list tree) :
    length kids' = length kids ->
    (forall n t t', nth_error kids n = Some t -> nth_error kids' n = Some t' -> Full t -> Full t') ->
    Forall Full kids -> Forall Full kids'.
  Proof.
    intros Hlen H HF. apply Forall_forall. intros x Hx.
    destruct (In_nth_error _ _ Hx) as [n En].
    assert (Hn : n < length kids) by (rewrite <- Hlen; apply nth_error_Some; congruence).
    destruct (nth_error kids n) as [t|] eqn:Et; [|apply nth_error_None in Et; lia].
    eapply H; eauto. rewrite Forall_forall in HF. apply HF. eapply nth_error_In; eauto.
  Qed.

  Lemma Forall_Full_all (kids' : list tree) n :
    length kids' = n ->
    (forall m t', List.In m (seq 0 n) -> nth_error kids' m = Some t' -> Full t') -> Forall Full kids'.
  Proof.
    intros Hlen H. apply Forall_forall. intros x Hx.
    destruct (In_nth_error _ _ Hx) as [m Em].
    eapply H; [|exact Em]. apply in_seq. split; [lia|]. cbn. rewrite <- Hlen. apply nth_error_Some. congruence.
  Qed.

  Theorem memo_good : forall f, ev_good (memo f).
  Proof.
    induction f as [|f IH]; intros t i o t' Hm HJ HBH H; [discriminate|].
    destruct t as [s c l kids]. cbn [Engine.memo] in H.
    inversion HJ as [s0 c0 l0 k0 HJl HJk]; subst.
    inversion HBH as [s0 c0 l0 k0 HBl HBk]; subst.
    assert (Hmode : mode i = PerformLayout \/ mode i = ComputeSize) by (destruct (mode i); [left|right|]; congruence).
    assert (Hbody : match cget c i with
             | Some o0 => Some (o0, Node s c l kids)
             | None => if is_none s then Some (hidden_out, Node s (cstore cempty i hidden_out) zero_lay (map hide kids))
                       else match run_memo (memo f) kids (algo s (map style_of kids) i) with
                            | Some (o0, kids') => Some (o0, Node s (cstore c i o0) l kids')
                            | None => None end
             end = Some (o, t')).
    { destruct (mode i); try exact H. congruence. }
    clear H.
    destruct (cget c i) as [o1|] eqn:Eg.
    - (* hit *)
      injection Hbody as <- <-. split; [exact HJ|]. split; [exact HBH|]. split; [auto|].
      intros Hp. destruct (is_none s) eqn:En; [apply Full_none; [exact En|eapply cget_nonempty; eauto]|].
      pose proof (cget_perform_final _ _ _ Hp Eg) as Hfin.
      apply Full_node; auto.
    - destruct (is_none s) eqn:En.
      + (* display:none : hidden layout, result stored *)
        injection Hbody as <- <-. split.
        * constructor; [intros E; congruence|]. apply Forall_map. apply Forall_forall. intros x _. apply J_hide.
        * split.
          -- constructor; [intros _; apply Forall_map; apply Forall_forall; intros x _; apply B_hide|].
             apply Forall_map. apply Forall_forall. intros x _. apply BH_hide.
          -- split; intros _; (apply Full_none; [exact En|apply cstore_nonempty; exact Hm]).
      + destruct (run_memo (memo f) kids (algo s (map style_of kids) i)) as [[o1 kids1]|] eqn:Er; [|discriminate].
        injection Hbody as <- <-.
        destruct (run_memo_good _ IH _ _ _ _ (seq 0 (length (map style_of kids))) (WF s _ i) HJk HBk Er)
          as [R1 [R2 [R3 [R4 R5]]]].
        assert (Hkeep : Forall Full kids -> Forall Full kids1) by (apply Forall_Full_nth; assumption).
        assert (Hperf : mode i = PerformLayout -> Forall Full kids1).
        { intros Hp. apply (Forall_Full_all kids1 (length kids)); [exact R3|].
          intros m u Hin Eu. apply (R5 (H1 s _ i Hp) m u); [|exact Eu]. rewrite map_length. exact Hin. }
        split.
        * constructor; [|exact R1]. intros _ Hfin.
          destruct Hmode as [Hp|Hc]; [apply Hperf; exact Hp|].
          rewrite (cstore_final_compute _ _ _ Hc) in Hfin. apply Hkeep. apply HJl; [reflexivity|exact Hfin].
        * split; [constructor; [intros E; congruence|exact R2]|]. split.
          -- intros HF. inversion HF as [? ? ? ? E ?|? ? ? ? _ Hfin Hfk]; subst; [congruence|].
             apply Full_node; [exact En| apply cstore_final_keep; assumption | apply Hkeep; exact Hfk].
          -- intros Hp. apply Full_node; [exact En|apply cstore_final_perform; exact Hp|apply Hperf; exact Hp].
  Qed.

  (* ---------- compute_layout leaves no box-generating node dirty (C15, second clause) ---------- *)
  Lemma Full_not_dirty s c l kids : Full (Node s c l kids) -> is_none s = false -> is_empty c = false.
  Proof. intros HF En. inversion HF; subst; [congruence|]. apply final_nonempty. assumption. Qed.

  Theorem pass_clean f t i o t' :
    mode i = PerformLayout -> J t -> B t -> memo f t i = Some (o, t') -> Full t' /\ J t' /\ B t'.
  Proof.
    intros Hp HJ HB H.
    assert (Hm : mode i <> PerformHiddenLayout) by congruence.
    destruct (memo_good f _ _ _ _ Hm HJ (B_BH _ HB) H) as [HJ' [HBH' [_ HF]]].
    specialize (HF Hp). split; [exact HF|]. split; [exact HJ'|]. apply Full_BH_B; assumption.
  Qed.

  (* ---------- mark_dirty: with the invariants, the early exit loses nothing (C15, third clause) ---------- *)
  (* no display:none node strictly above the target of the path *)
  Fixpoint visible_path (t : tree) (p : list nat) : Prop :=
    match p with
    | [] => True
    | x :: p' =>
        match t with
        | Engine.Node _ _ _ _ s _ _ kids =>
            is_none s = false /\ match nth_error kids x with Some ch => visible_path ch p' | None => False end
        end
    end.

  Lemma md_spec : forall p t, J t -> B t -> visible_path t p ->
    md t p = (clear_path t p, negb (is_empty (cache_of t))).
  Proof.
    induction p as [|x p IH]; intros [s c l kids] HJ HB Hv; cbn [Engine.md Engine.clear_path].
    - reflexivity.
    - cbn in Hv. destruct Hv as [En Hv].
      destruct (nth_error kids x) as [ch|] eqn:Ex; [|contradiction].
      inversion HJ as [s0 c0 l0 k0 HJl HJk]; subst. inversion HB as [s0 c0 l0 k0 HBl HBk]; subst.
      assert (HJc : J ch) by (rewrite Forall_forall in HJk; apply HJk; eapply nth_error_In; eauto).
      assert (HBc : B ch) by (rewrite Forall_forall in HBk; apply HBk; eapply nth_error_In; eauto).
      rewrite (IH ch HJc HBc Hv). cbn [cache_of].
      destruct (is_empty (Engine.cache_of S In Out Lay ch)) eqn:Ee; cbn [negb].
      + (* the child's cache was already empty: the walk stops; then this node's cache is empty too *)
        assert (Hc : is_empty c = true).
        { destruct (is_empty c) eqn:Ec; [reflexivity|]. exfalso.
          pose proof (HBl En eq_refl) as Hfin. pose proof (HJl En Hfin) as HFk.
          rewrite Forall_forall in HFk. specialize (HFk ch (nth_error_In _ _ Ex)).
          destruct ch as [s1 c1 l1 k1]. cbn in Ee.
          inversion HFk as [? ? ? ? En1 Hne1|? ? ? ? En1 Hf1 _]; subst.
          - congruence.
          - apply final_nonempty in Hf1. congruence. }
        apply is_empty_true in Hc. subst c. reflexivity.
      + reflexivity.
  Qed.
End Dirty.
