(* A concrete instance of the engine skeleton used (a) as non-vacuity witness of the engine theorems' hypotheses and
   (b) by the dirty-flag correspondence: styles carry a node id and the display:none flag, and the algorithm queries
   every child once, in order, in its own run mode (so it satisfies WF and H1).  Dirty flags after any history do
   not depend on the algorithm beyond WF/H1, which is why this instance can be compared with the implementation. *)
From Coq Require Import List Bool Arith NArith Lia.
From TV Require Import Model.Engine.
Import ListNotations.

Definition TS : Type := (N * bool)%type.          (* node id, display:none *)
Definition TIn : Type := (RunMode * N)%type.      (* run mode, opaque rest of the input *)
Definition TOut : Type := N.
Definition TLay : Type := N.

Definition t_mode (i : TIn) : RunMode := fst i.
Definition mode_eqb (a b : RunMode) : bool :=
  match a, b with
  | PerformLayout, PerformLayout | ComputeSize, ComputeSize | PerformHiddenLayout, PerformHiddenLayout => true
  | _, _ => false
  end.
Definition t_in_eqb (a b : TIn) : bool := mode_eqb (fst a) (fst b) && N.eqb (snd a) (snd b).
Definition t_is_none (s : TS) : bool := snd s.

(* children are visited in order; a display:none child receives the canonical hidden-child query
   (perform_child_layout(child, NONE, NONE, MAX_CONTENT, ..)): the same key on every pass, as in the real algorithms *)
Definition hidden_child_key : TIn := (PerformLayout, 4242%N).
Fixpoint qall (st : list TS) (k : nat) (i : TIn) (acc : N) : Alg TIn TOut TLay :=
  match st with
  | [] => Ret _ _ _ acc
  | s :: st' =>
      Query _ _ _ k (if t_is_none s then hidden_child_key else i)
            (fun o => SetLayout _ _ _ k (o + 1)%N (qall st' (S k) i (acc + o)%N))
  end.
Definition t_algo (s : TS) (st : list TS) (i : TIn) : Alg TIn TOut TLay :=
  match t_mode i with
  | PerformLayout => qall st 0 i (fst s)
  | _ => qall st 0 i (fst s + 7)%N
  end.

Notation ttree := (tree TS TIn TOut TLay).
Definition t_memo := memo TS TIn TOut TLay t_mode t_in_eqb t_is_none 0%N 0%N t_algo.
Definition t_mutate := mutate TS TIn TOut TLay.
Definition t_dirty := dirty TS TIn TOut TLay.
