#!/usr/bin/env python3
"""Mutation experiments for ./check C12 (see notes/C12.md).  Never touches /repo: every mutant is applied to a scratch
worktree /tmp/c12-mut-repo which is removed afterwards.   usage: python3 notes/C12.mutate.py [name ...]"""
import json
import os
import re
import subprocess
import sys
import time

ROOT = os.path.dirname(os.path.dirname(os.path.abspath(__file__)))
WT = '/tmp/c12-mut-repo'

ADJ = "if style.box_sizing() == BoxSizing::ContentBox { padding_border_size } else { Size::ZERO };"
MUT = {
    # --- must be reported
    'M1_block_item_max_size_unadjusted': ('src/compute/block.rs', [(
        """                max_size: child_style
                    .max_size()
                    .maybe_resolve(node_inner_size, |val, basis| tree.calc(val, basis))
                    .maybe_apply_aspect_ratio(aspect_ratio)
                    .maybe_add(box_sizing_adjustment),""",
        """                max_size: child_style
                    .max_size()
                    .maybe_resolve(node_inner_size, |val, basis| tree.calc(val, basis))
                    .maybe_apply_aspect_ratio(aspect_ratio),""")]),
    'M2_leaf_padding_only': ('src/compute/leaf.rs', [(
        "let box_sizing_adjustment = if style.box_sizing() == BoxSizing::ContentBox { pb_sum } else { Size::ZERO };",
        "let box_sizing_adjustment = if style.box_sizing() == BoxSizing::ContentBox { padding.sum_axes() } else { Size::ZERO };")]),
    'M3_flex_basis_cross_axis': ('src/compute/flexbox.rs', [(
        "            Size::ZERO\n        }\n        .main(dir);", "            Size::ZERO\n        }\n        .cross(dir);")]),
    'M4_grid_item_extra_raw_max_size': ('src/compute/grid/types/grid_item.rs', [(
        "        let grid_area_minus_item_margins_size = grid_area_size.maybe_sub(margins);\n",
        "        let max_size = max_size.maybe_min(self.max_size.maybe_resolve(grid_area_size, |val, basis| tree.calc(val, basis)));\n"
        "        let grid_area_minus_item_margins_size = grid_area_size.maybe_sub(margins);\n")]),
    'M5_grid_container_modes_swapped': ('src/compute/grid/mod.rs', [(ADJ, ADJ.replace('ContentBox', 'BorderBox'))]),
    # --- must stay silent
    'H1_equivalent_condition_and_rename': ('src/compute/grid/mod.rs', [(ADJ, ADJ.replace('== BoxSizing::ContentBox', '!= BoxSizing::BorderBox'))]),
    # the repair of the recorded finding: exit 0, no KNOWN-FINDING line, the log says the entry is stale
    'H2_repair_of_the_finding': ('src/compute/grid/types/grid_item.rs', [(
        """                        let size = self.size.get(axis).maybe_resolve(Some(0.0), |val, basis| tree.calc(val, basis));
                        let max_size =
                            self.max_size.get(axis).maybe_resolve(Some(0.0), |val, basis| tree.calc(val, basis));""",
        """                        let size = self
                            .size
                            .get(axis)
                            .maybe_resolve(Some(0.0), |val, basis| tree.calc(val, basis))
                            .maybe_add(box_sizing_adjustment.get(axis));
                        let max_size = self
                            .max_size
                            .get(axis)
                            .maybe_resolve(Some(0.0), |val, basis| tree.calc(val, basis))
                            .maybe_add(box_sizing_adjustment.get(axis));""")]),
}


def sh(cmd, **kw):
    return subprocess.run(cmd, shell=True, stdout=subprocess.PIPE, stderr=subprocess.STDOUT, text=True, **kw)


def main():
    names = sys.argv[1:] or list(MUT)
    for name in names:
        rel, edits = MUT[name]
        sh('git -C /repo worktree remove --force %s' % WT)
        r = sh('git -C /repo worktree add --detach %s HEAD' % WT)
        if r.returncode != 0:
            print(r.stdout)
            sys.exit(1)
        try:
            p = os.path.join(WT, rel)
            s = open(p).read()
            for old, new in edits:
                assert s.count(old) == 1, (name, 'pattern not unique / not found')
                s = s.replace(old, new)
            open(p, 'w').write(s)
            if name.startswith('H1'):
                # additionally rename a local in block.rs generate_item_list
                q = os.path.join(WT, 'src/compute/block.rs')
                t = open(q).read()
                i = t.index('fn generate_item_list')
                j = t.index('\n}\n', i)
                t = t[:i] + t[i:j].replace('pb_sum', 'padding_border_total') + t[j:]
                open(q, 'w').write(t)
            t0 = time.time()
            env = dict(os.environ, VERIF_REPO=WT)
            r = sh('timeout 900 ./check C12', cwd=ROOT, env=env)
            lines = [l for l in r.stdout.split('\n') if l.startswith(('VIOLATION', 'KNOWN-FINDING'))]
            print('== %s: exit %d, %.0fs, %d VIOLATION, %d KNOWN-FINDING' % (
                name, r.returncode, time.time() - t0, sum(l.startswith('VIOLATION') for l in lines), sum(l.startswith('KNOWN') for l in lines)))
            for l in r.stdout.split('\n'):
                if 'BROKEN' in l or 'stale' in l:
                    print('   ', l[:220])
            first = None
            for l in lines:
                m = re.search(r'replay=(\S+)', l)
                if m:
                    d = json.load(open(m.group(1)))
                    print('    %s | %s' % (d['what'][:200], json.dumps(d.get('replay', {}))[:160]))
                    if first is None and d.get('replay'):
                        first = m.group(1)
            if first:
                keep = '/tmp/c12-mut-replay.json'
                sh('cp %s %s' % (first, keep))
                r2 = sh('timeout 600 ./check C12 --replay %s' % keep, cwd=ROOT, env=env)
                print('    replay of %s: exit %d, %s' % (os.path.basename(first), r2.returncode,
                                                        [l[:60] for l in r2.stdout.split('\n') if l.startswith('VIOLATION')][:1]))
                os.remove(keep)
        finally:
            sh('git -C /repo worktree remove --force %s' % WT)


if __name__ == '__main__':
    main()
