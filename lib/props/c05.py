"""C05 -- display:none subtrees are zeroed and invisible.
proof: Props/C05.v (engine skeleton for every algorithm: HiddenZero preserved / established by a pass / broken only by mutations
below a clean hidden node; hidden blindness; grid placement cannot see hidden children);
K: (a) grid containers with display:none / absolute children carrying definite lines vs Model/PlacementRun.v (`vh c05 cases`:
the C08 protocol and runner with half of the children display:none; the hidden + absolute mix is in C08's own K), (b) the engine correspondence shared
with C01 (dirty flags of histories vs Model/Engine.v incl. hide, + trace validation of WF / H1, premises of
C05_pass_establishes_hidden_zero);
search: metamorphic oracle on FRESH trees through the public API (`vh c05 oracle`): every node of a display:none region has an
all-zero layout; replacing one display:none node by a bare display:none leaf changes no other node's layout, bit for bit; the zero
clause again after a node that was laid out visible is hidden through set_style; queries to hidden children are canonical (trace)."""
from ..common import *
from ..stages import *
from ..engine_k import engine_correspondence
from . import _hidabs as H
from . import _placement as P
from . import _flexalg as FA
from . import _gridalg as GA

THEOREMS = [
    'C05_hidden_zero : HiddenZero t -> memo f t i = Some (o, t\') -> HiddenZero t\' /\\ (every strict descendant of a display:none node of t\' '
    'has lay = zero_lay, cache = cempty) /\\ (is_none (style t) -> t\' = t (hit) \\/ (o = hidden_out /\\ t\' = Node s c\' zero_lay (map hide kids)))',
    'C05_pass_establishes_hidden_zero : WF -> H1 -> mode i = PerformLayout -> J t -> B t -> HZc t -> memo f t i = Some (o, t\') -> '
    'HiddenZero t\' /\\ J t\' /\\ B t\' /\\ HZc t\'',
    'C05_mutators_preserve : HZc t -> visible_path t p -> edit_kids_ok e -> HZc (mutate t p e)',
    'C05_attach_below_hidden_refuted : toy history attach-two-levels-below-hidden; mark_dirty(root); pass  ==>  ~ HiddenZero (leaf layout 5 below display:none)',
    'C05_hidden_root_refuted : exists st, display st = DNone /\\ root_leaf st .. = Some (lay, _) /\\ l_size lay = 0 /\\ l_padding lay = 3 /\\ l_border lay = 2 /\\ l_margin lay = 5 /\\ l_scrollbar_size lay = 4',
    'C05_hidden_blind_engine : HiddenBlind algo -> hsim k k\' -> plain f k i = plain f k\' i /\\ orel (memo f (fresh k) i) (memo f (fresh k\') i)',
    'C05_grid_estimate_ignores_hidden : Forall2 (same_but Hidden (fun _ _ => True)) cs cs\' -> grid_placement_run ec er fl cs = grid_placement_run ec er fl cs\'',
    'C05_flex_items_ignore_hidden : agree_except (s_hidden bgm) f f\' cs -> flex_generate_items f position bgm build cs = flex_generate_items f\' position bgm build cs   '
    '[flex_generate_items is TRANSLATED from generate_anonymous_flex_items on every run]',
    'C05_block_items_ignore_hidden : (agree_except (s_hidden bgm) f f\' cs -> block_generate_items f .. build cs = block_generate_items f\' .. build cs) /\\ '
    'block_generate_items f .. build (filter visible cs) = block_generate_items f .. build cs /\\ normal form',
    'C05_grid_items_ignore_hidden, C05_model_filters_are_source (Model/Block.v generate_item_list and Model/Placement.v estimate_children / in_flow_children are the translated filters)',
    'C05_block_algorithm_hidden_blind : HiddenBlind bs_is_none (block_alg pre abs_child)   [block_alg = compute_inner as a resumption, Model/BlockAlg.v]',
    'C05_block_algorithm_sets_zero_on_hidden : AbsChildLocal abs_child -> SetsZeroOnHidden bs_is_none (block_alg pre abs_child) b_zeroish',
    'C05_block_engine_hidden_invisible : the conclusion of C05_hidden_blind_engine for engines of block containers and leaves, no premise on the algorithms',
    'C05_flex_algorithm_shape : Pre (in_flow_at st) (flex_BL s st) (ComputeSize: Ret | else: QSL walk (QSL abs_nodes (QSLc canonical-hidden-query with_order hidden_nodes Ret))) (flex_alg s st i)   '
    '[flex_alg = compute_flexbox_layout as a resumption, Model/FlexAlg.v, K-exact against the event trace of the implementation]',
    'C05_flex_algorithm_hidden_blind : HiddenBlind f_is_none flex_alg /\\ flex_alg s st i = flex_alg s (map f_hidden_view st) i',
    'C05_flex_algorithm_sets_zero_on_hidden : SetsZeroOnHidden f_is_none flex_alg f_zeroish',
    'C05_blockflex_engine_hidden_invisible : the conclusion of C05_hidden_blind_engine for engines of block containers, flex containers and leaves',
    'C01_flex_algorithm_satisfies_interface : WFAlg (flex_alg s st i) /\\ (PerformLayout -> Visits (seq 0 n) ..) /\\ (PerformLayout -> SetsLast nones (seq 0 n) ..) /\\ NoHiddenSize nones ..',
    'C01_flex_algorithm_NS_partial : fs_row s = false \\/ no child baseline-aligned -> ComputeSize -> SizeOnly (flex_alg s st i)',
    'C01_flex_algorithm_NS_refuted : exists s st i, ComputeSize /\\ ~ SizeOnly (flex_alg s st i) /\\ first non-size event = PerformLayout/ContentSize query to child 0 (flexbox.rs l.1440)',
    'C05_grid_algorithm_shape : GShape st (grid_alg s st i)  [every event: ComputeSize query to an in-flow child | PerformLayout query / SetLayout on a child that is not display:none | '
    'Query c hidden_child_input (fun _ => SetLayout c (with_order n) ..) on a display:none child | Ret; grid_alg = compute_grid_layout as a resumption, Model/GridAlg.v, K-exact against the event trace]',
    'C05_grid_model_loops_are_source : oof_view s = (if grid_final_loop_hidden_test .. s then OHidden else if grid_final_loop_absolute_test .. s then OAbs s else OSkip) /\\ grid_hidden_branch_is_canonical = true /\\ grid_absolute_branch_is_local = true /\\ grid_tree_calls_address_item_only = true   [tests TRANSLATED from the final loop of compute_grid_layout]',
    'C05_grid_sizing_guard_never_fires : place .. = Ok (m, placed) -> mapM make_item placed = Ok items0 -> PGood (in-flow flag set) true (fun _ => True) (m_size_grid s P i (mkSS cols0 rows0 0 0 items0))',
    'C05_grid_algorithm_hidden_blind : HiddenBlind g_is_none grid_alg /\\ grid_alg s st i = grid_alg s (map g_hidden_view st) i',
    'C05_grid_algorithm_sets_zero_on_hidden : SetsZeroOnHidden g_is_none grid_alg g_zeroish',
    'C05_grid_engine_hidden_invisible, C05_taffy_engine_hidden_invisible : the conclusion of C05_hidden_blind_engine for engines of grid containers and leaves / of block, flex, grid containers and leaves -- no premise on the algorithms',
    'C01_grid_algorithm_satisfies_interface : WFAlg (grid_alg s st i) /\\ (grid_no_panic s st i = true -> PerformLayout -> Visits (seq 0 n) ..) /\\ (grid_no_panic .. -> PerformLayout -> SetsLast nones (seq 0 n) ..) /\\ NoHiddenSize nones ..',
    'C01_grid_algorithm_NS_partial : align_items s <> Baseline -> Forall (align_self <> Baseline) st -> ComputeSize -> SizeOnly (grid_alg s st i)',
    'C01_grid_algorithm_NS_refuted : exists s st i, ComputeSize /\\ ~ SizeOnly (grid_alg s st i) /\\ first event = PerformLayout query to child 0 (track_sizing.rs l.491 resolve_item_baselines)',
    'C05_taffy_layout_pass_hidden_invisible, C05_taffy_layout_passes_hidden_invisible (audit 7b) : tsim t t\' -> root not display:none -> taffy_compute_root / taffy_passes '
    '(what `vh taffytree` evaluates: root input from the root style, one memoised query, root layout stored; several passes) give None / None or tsim trees',
    'C05_bl_real_sets_zero_on_hidden (audit 7b) : SetsZeroOnHidden bn_is_none (bl_algo pre abs_child_block) b_zeroish -- the dispatcher of the engine `vh blocktree` runs',
    'computed instances (audit 7b): C05_grid_algorithm_hidden_blind_example (grid with a loud hidden child vs bare, equal resumptions, 19 events), '
    'C05_taffy_engine_example (9- vs 11-node mixed trees, hidden subtree inside the GRID, both real_memo runs Some, tsim, boxes), C05_taffy_layout_passes_example (two passes)',
]


def finding(oracle_class):
    for f in known_findings('C05'):
        if f.get('oracle_class') == oracle_class and f.get('status') == 'known':
            return f
    return None


def run(rep, tier, seed, replay=None):
    res, changed = proof_stage(rep, 'C05', extra_trusted=[
        'engine skeleton Model/Engine.v is hand-written (tied by the dirty-flag correspondence incl. hide, and trace validation of WF / H1)',
        'interface hypotheses on the real algorithms: WF, H1 (trace-validated on every run); HiddenBlind and SetsZeroOnHidden are PROVED for the block '
        'algorithm as modelled in Model/BlockAlg.v (compute_inner as a resumption assembled from the translated item pipeline and the K-validated '
        'kernel of Model/Block.v), for the FLEX algorithm as modelled in Model/FlexAlg.v (all of compute_flexbox_layout as a resumption: hand model, '
        'validated event by event and bit for bit against the implementation by `vh flexalg cases` on every run; for it WF, H1, H3, HQ are theorems too) '
        'for the GRID algorithm as modelled in Model/GridAlg.v (all of compute_grid_layout as a resumption -- item contribution protocol with its caches, '
        'baselines, re-runs, final passes: hand model assembled from the C08/C09/C11 components, validated event by event and bit for bit against the '
        'implementation by `vh gridalg cases` on every run; WF, HQ theorems, H1 / H3 theorems under grid_no_panic) '
        'and for the item generation of all three algorithms (translated pipelines)',
        'translator/gen_filters.py (item-generation pipelines, box_generation_mode, the hidden-children loop of compute_inner); fails closed',
        'grid placement model Model/Placement.v: hand transcription of placement.rs / implicit_grid.rs / the child filters of grid/mod.rs '
        '(tied by K + fingerprints); tables regenerated from the source',
        'Model/Root.v (compute_root_layout of a childless root; tied by the C19 correspondence) for C05_hidden_root_refuted',
        'the theorems speak about stored layouts zero_lay / `zeroish`; that Layout::with_order(i) is what the algorithms store on hidden '
        'children is observed by the oracle (all fields but `order` zero), not derived from the source'])
    rc, out, binp, dt = build_harness('release')
    if rc != 0:
        rep.add_broken('build', 'harness', out[-1500:])
        return
    escalate = bool(changed) or tier == 'thorough'
    # ---- K (b): engine skeleton (shared with C01/C15): hide / memo / mark_dirty vs TaffyTree::dirty, WF + H1 on traces
    engine_correspondence(rep, binp, seed + 5, 1500 if escalate else 250)
    eng_distinct = rep.cov.get('distinct_nontrivial', 0)
    eng_samples = rep.cov.get('samples', [])[:1]
    # ---- K (a): grid placement with hidden / absolute children
    bad = []
    if replay and 'case' in replay:
        r, _ = P.run_one(binp, replay['case'])
        try:
            model = P.model_eval('C05', [replay['case']])
            bad = diff_results(rep, 'grid placement K (replay)', [replay['case']], [r], model)
        except RuntimeError as ex:
            rep.add_broken('correspondence', 'placement K', str(ex)[-1500:])
    else:
        bad = H.placement_k(rep, 'C05', binp, seed + 505, 12000 if escalate else 2500, kind=1)
    rep.cov['engine_histories_distinct'] = eng_distinct
    rep.cov['samples'] = rep.cov.get('samples', []) + eng_samples
    # ---- K3: block containers with absolute / hidden children interleaved, vs the block model the new theorems are about
    if not replay:
        H.block_k(rep, 'C05', binp, seed + 550, 2400 if escalate else 600, p_absolute=0, p_hidden=300)
    # ---- K4: the flex resumption (Model/FlexAlg.v) vs the event trace of compute_flexbox_layout, + the NS witness on the implementation
    if not replay:
        FA.flexalg_k(rep, 'C05', binp, seed + 5050, 1500 if escalate else 400, payload_is_broken=False)
        FA.ns_witness(rep, 'C05', binp)
        # ---- K5: the grid resumption (Model/GridAlg.v) vs the event trace of compute_grid_layout (family 1: display:none children, no absolute
        #      ones), + the grid NS witness on the implementation
        GA.gridalg_k(rep, 'C05', binp, seed + 5151, 1200 if escalate else 400, family=1, payload_is_broken=False)
        GA.ns_witness(rep, 'C05', binp)
        # ---- K6 (wave 6): WHOLE TREES mixing block / flex / grid containers and leaves, every tree with a display:none node: the engine
        #      C05_taffy_engine_hidden_invisible is about (Model/TaffyEngine.v taffy_algo with the real dispatch / leaf, exact-key memo, root
        #      glue) vs TaffyTree::compute_layout_with_measure, every node's unrounded layout after every pass (notes/TAFFYTREE.md)
        from . import _taffytree
        _taffytree.tree_k(rep, 'C05', binp, seed + 6161, 1500 if escalate else 300, family=1)
    for t in THEOREMS:
        rep.cov['samples'].append({'theorem': t})
    # ---- search: metamorphic oracle on the implementation
    big = bool(rep.broken) or tier == 'thorough'
    n = 400000 if big else 40000
    start = 0
    oseed = seed
    if replay and 'idx' in replay:
        start, n, oseed = replay['idx'], 1, replay.get('seed', seed)
    o = H.run_oracle(rep, binp, 'c05', oseed, start, n)
    if o is None:
        return
    rep.cov['oracle_trees'] = o['done'][0]
    rep.cov['oracle_nodes_compared_bitwise'] = o['done'][1]
    rep.cov['oracle_hidden_region_nodes_checked_zero'] = o['done'][2]
    rep.cov['oracle_both_runs_panicked'] = o['done'][3]
    rep.cov['oracle_hidden_child_queries_validated_canonical'] = o['done'][4] if len(o['done']) > 4 else 0
    rep.cov['oracle_distribution'] = o['stat']
    rep.cov['evaluations'] = rep.cov.get('evaluations', 0) + o['done'][0]
    rc1, out1 = vh(binp, ['c05', 'one', oseed, start])
    rep.cov['samples'].append({'oracle_case': 'vh c05 one %d %d' % (oseed, start), 'tree_and_verdict': out1[:1800]})
    for f in o['fail'][:4]:
        rep.add_violation('display:none subtree is not zeroed / not invisible: %s' % f['line'][:700],
                          {'seed': oseed, 'idx': f['idx'], 'cmd': 'vh c05 one %d %d' % (oseed, f['idx'])})
    by_class = {}
    for k in o['known']:
        by_class.setdefault(k['class'], []).append(k)
    for cls, ks in by_class.items():
        f = finding(cls)
        if f is None:
            # classified by the harness but not (any more) a committed known finding: a violation
            for k in ks[:2]:
                rep.add_violation('%s (class %s is not a known finding)' % (k['line'][:600], cls),
                                  {'seed': oseed, 'idx': k['idx'], 'cmd': 'vh c05 one %d %d' % (oseed, k['idx'])})
        else:
            rep.known.append('%s  [%d trees of this run, e.g. vh c05 one %d %d]' % (f['line'].split(' ', 2)[2], len(ks), oseed, ks[0]['idx']))
    # the model-side witness of the known finding must still fail on the implementation (else the entry is stale)
    rc, out = vh(binp, ['c05', 'rootwitness'])
    m = re.search(r'^W (.*)$', out, re.M)
    if m:
        bits = [int(x) for x in m.group(1).split()]
        # x y w h cw ch | sbw sbh | border x4 | padding x4 | margin x4 ; model witness: 0.. | 4 4 | 2 | 3 | 5
        f32 = {0.0: 0, 2.0: 0x40000000, 3.0: 0x40400000, 4.0: 0x40800000, 5.0: 0x40a00000}
        expect = [0] * 6 + [f32[4.0]] * 2 + [f32[2.0]] * 4 + [f32[3.0]] * 4 + [f32[5.0]] * 4
        rep.cov['hidden_root_witness_reproduces'] = (bits == expect)
        if bits != expect:
            if all(b == 0 for b in bits):
                log('[C05] known finding hidden-root-box-fields no longer reproduces on the implementation: the entry (and C05_hidden_root_refuted / Model/Root.v) is stale')
            rep.add_broken('correspondence', 'C05_hidden_root_refuted witness vs implementation', {'impl_bits': bits, 'model_bits': expect})
    else:
        rep.add_broken('search', 'vh c05 rootwitness', out[-300:])
    # the witness of C05_attach_below_hidden_refuted (known finding C01/hidden-region-stale) on the implementation: a laid-out subtree
    # attached two levels below a clean display:none node keeps its 5 x 5 layout; attached to the display:none node itself it is zeroed
    rc, out = vh(binp, ['c05', 'stalewitness'])
    m = re.search(r'^S (\d+) (\d+) (\d+) (\d+)$', out, re.M)
    if m:
        b = [int(x) for x in m.groups()]
        five = 0x40a00000
        rep.cov['attach_below_hidden_witness'] = {'leaf_size_bits_below_mid': b[:2], 'leaf_size_bits_under_hidden': b[2:],
                                                  'reproduces_on_implementation': b == [five, five, 0, 0]}
        if b[2:] != [0, 0]:
            rep.add_violation('a subtree attached directly to a display:none node keeps a non-zero layout after relayout '
                              '(the zero clause; the model zeroes it: C05_attach_below_hidden_refuted, last conjunct)', {'cmd': 'vh c05 stalewitness', 'output': out})
        elif b[:2] != [five, five]:
            log('[C05] the witness of C05_attach_below_hidden_refuted no longer keeps a stale layout on the implementation: the theorem comment '
                'and the known finding C01/hidden-region-stale are stale')
    else:
        rep.add_broken('search', 'vh c05 stalewitness', out[-300:])
    if not o['fail']:
        # a K disagreement on a concrete grid: decide on the implementation alone -- the reported track counts must not depend on
        # the placement styles of the hidden children
        for c, a, b in bad[:3]:
            d = P.decode(c)
            neutral = list(c)
            for j, (kind, _) in enumerate(d['children']):
                if kind == 1:
                    neutral[4 + 9 * j + 1:4 + 9 * j + 9] = [0] * 8
            r2, _ = P.run_one(binp, neutral)
            if r2 != a:
                rep.add_violation('grid container: reported placement changes when the display:none children lose their grid lines -- %s' % P.describe(c),
                                  {'case': c, 'impl': a, 'impl_neutralised': r2, 'cmd': 'vh c08 one %s' % ' '.join(str(x) for x in c)})
    rep.cov['rule'] = ('K(a): `vh c05 cases`: grid container, explicit 0-4 x 0-4 fixed tracks, 4 auto-flow modes, 1-6 leaf children, half of them '
                       'display:none, these with a placement that is non-auto with p=0.8 per edge (lines -6..6 incl 0, '
                       'spans 1-4): reported track counts and item areas (detailed_layout_info) vs Model.Placement.grid_placement_run; distinct_nontrivial = '
                       'distinct cases with a display:none child that has a non-auto placement.  K(b): engine histories (see C01).  search: `vh c05 oracle`: '
                       'treegen trees (<= 14 nodes, depth <= 4, flex/grid/block, p_hidden 18%, a hidden node forced if none; 1/64 with a hidden ROOT), the '
                       'target made loud (definite grid lines, sizes, margins, flex grow) with p=1/2; (i) every node of a display:none region all-zero '
                       '(unrounded and rounded, `order` free); (ii) target replaced by a bare display:none leaf, rebuilt, all other nodes compared bit for bit; (iii) laid out with the target visible, '
                       'target hidden through set_style, laid out again: zero clause again; every traced query to a display:none child must be the canonical one')
