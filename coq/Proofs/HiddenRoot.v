(* C05, the ROOT node: compute_root_layout assembles the root's Layout from the LayoutOutput of the root query
   (HIDDEN: size and content size zero for display:none) and from the root's OWN style: padding, border, margin and
   the scrollbar gutters are resolved and stored whatever the display mode.  A display:none root therefore does not get
   an all-zero layout (known finding C05/hidden-root-box-fields); size, content size and location are zero. *)
From Coq Require Import QArith Bool List ZArith.
From TV Require Import Num.QNum Model.Common Model.Leaf Model.Root Proofs.LeafProofs.
Import ListNotations.
Open Scope Q_scope.

(* display:none; padding 3, border 2, margin 5, overflow scroll with a 4px scrollbar *)
Definition lp4 (v : Q) : Rect (LengthPercentage XQ) := mkRect (LpLength (Fin v)) (LpLength (Fin v)) (LpLength (Fin v)) (LpLength (Fin v)).
Definition lpa4 (v : Q) : Rect (LengthPercentageAuto XQ) := mkRect (Length (Fin v)) (Length (Fin v)) (Length (Fin v)) (Length (Fin v)).
Definition hidden_root_style : Style XQ :=
  mkStyle DNone Relative BorderBox (mkPoint Scroll Scroll) (Fin 4) auto2 auto2 auto2 None (lpa4 5) (lp4 3) (lp4 2).

Lemma hidden_root_witness :
  display hidden_root_style = DNone /\
  exists lay calls, root_leaf hidden_root_style measure_zero max_content2 = Some (lay, calls) /\ calls = [] /\
    l_size lay = mkSize (Fin 0) (Fin 0) /\ l_content_size lay = mkSize (Fin 0) (Fin 0) /\
    l_location lay = mkPoint (Fin 0) (Fin 0) /\
    l_padding lay = mkRect (Fin 3) (Fin 3) (Fin 3) (Fin 3) /\ l_border lay = mkRect (Fin 2) (Fin 2) (Fin 2) (Fin 2) /\
    l_margin lay = mkRect (Fin 5) (Fin 5) (Fin 5) (Fin 5) /\ l_scrollbar_size lay = mkSize (Fin 4) (Fin 4).
Proof.
  split; [reflexivity|]. eexists. eexists. split; [vm_compute; reflexivity|]. vm_compute. repeat split; reflexivity.
Qed.
