(* Relational lemmas for the loop combinators of the flex resumption (Model/FlexAlg.v qseq / qmap / qsloop / hidden_pass) and for its list
   plumbing (regroup / per_line / zip_total / map_lines_from): one lemma per combinator, generic in the relations.  Everything phase-specific
   is in Proofs/FlexRelItems.v, FlexRelCross.v, FlexRelFinal.v. *)
From Coq Require Import QArith Bool List ZArith Lia.
From TV Require Import Num.Num Num.QNum Model.Common Model.Leaf Model.FlexAlgBase Model.FlexAlg Model.FlexAlgRel.
From TV Require Import Model.Scale Model.Engine Model.EngineRel.
From TV Require Import Proofs.ScaleKit.
Import ListNotations.
Close Scope Z_scope.

Section Combinators.
  Variable RI : FIn XQ -> FIn XQ -> Prop.
  Variable RO : LayoutOutput XQ -> LayoutOutput XQ -> Prop.
  Variable RL : FLay XQ -> FLay XQ -> Prop.
  Variable RA : @Ans XQ -> @Ans XQ -> Prop.
  Hypothesis ans_of_rel : forall o o', RO o o' -> RA (ans_of o) (ans_of o').

  Notation Alg := (Engine.Alg (FIn XQ) (LayoutOutput XQ) (FLay XQ)).
  Notation AR := (AlgRel (FIn XQ) (LayoutOutput XQ) (FLay XQ) RI RO RL).

  Lemma qseq_rel c is is' : Forall2 RI is is' ->
    forall acc acc' (K K' : list (@Ans XQ) -> Alg), Forall2 RA acc acc' ->
      (forall a a', Forall2 RA a a' -> AR (K a) (K' a')) -> AR (qseq c is acc K) (qseq c is' acc' K').
  Proof.
    induction 1 as [|i i' l l' Hi Hl IH]; intros acc acc' K K' Hacc HK; cbn [qseq].
    - apply HK. apply rel_rev. exact Hacc.
    - apply AR_query; [exact Hi|]. intros o o' Ho. apply IH; [|exact HK]. constructor; [apply ans_of_rel; exact Ho|exact Hacc].
  Qed.

  Section QMap.
    Context {W : Type}.
    Variable RW : W -> W -> Prop.
    Variables (node : W -> nat) (asks asks' : W -> list (FIn XQ)) (upd upd' : W -> list (@Ans XQ) -> W).
    Hypothesis node_rel : forall w w', RW w w' -> node w' = node w.
    Hypothesis asks_rel : forall w w', RW w w' -> Forall2 RI (asks w) (asks' w').
    Hypothesis upd_rel : forall w w' a a', RW w w' -> Forall2 RA a a' -> RW (upd w a) (upd' w' a').

    Lemma qmap_rel ws ws' : Forall2 RW ws ws' ->
      forall (K K' : list W -> Alg), (forall r r', Forall2 RW r r' -> AR (K r) (K' r')) ->
        AR (qmap node asks upd ws K) (qmap node asks' upd' ws' K').
    Proof.
      induction 1 as [|w w' l l' Hw Hl IH]; intros K K' HK; cbn [qmap].
      - apply HK. constructor.
      - rewrite (node_rel _ _ Hw). apply qseq_rel; [apply asks_rel; exact Hw|constructor|].
        intros a a' Ha. apply IH. intros r r' Hr. apply HK. constructor; [apply upd_rel; assumption|exact Hr].
    Qed.
  End QMap.

  Section QSLoop.
    Context {W St : Type}.
    Variable RW : W -> W -> Prop.
    Variable RSt : St -> St -> Prop.
    Variables (node : W -> nat) (ask ask' : W -> St -> FIn XQ) (lay lay' : W -> St -> LayoutOutput XQ -> FLay XQ)
              (step step' : W -> St -> LayoutOutput XQ -> St).
    Hypothesis node_rel : forall w w', RW w w' -> node w' = node w.
    Hypothesis ask_rel : forall w w' s s', RW w w' -> RSt s s' -> RI (ask w s) (ask' w' s').
    Hypothesis lay_rel : forall w w' s s' o o', RW w w' -> RSt s s' -> RO o o' -> RL (lay w s o) (lay' w' s' o').
    Hypothesis step_rel : forall w w' s s' o o', RW w w' -> RSt s s' -> RO o o' -> RSt (step w s o) (step' w' s' o').

    Lemma qsloop_rel ws ws' : Forall2 RW ws ws' ->
      forall s s' (K K' : St -> Alg), RSt s s' -> (forall t t', RSt t t' -> AR (K t) (K' t')) ->
        AR (qsloop node ask lay step ws s K) (qsloop node ask' lay' step' ws' s' K').
    Proof.
      induction 1 as [|w w' l l' Hw Hl IH]; intros s s' K K' Hs HK; cbn [qsloop].
      - apply HK. exact Hs.
      - rewrite (node_rel _ _ Hw). apply AR_query; [apply ask_rel; assumption|]. intros o o' Ho.
        apply AR_set; [apply lay_rel; assumption|]. apply IH; [|exact HK]. apply step_rel; assumption.
    Qed.
  End QSLoop.

  Lemma hidden_pass_rel flags : RI hidden_child_input hidden_child_input -> (forall n, RL (f_with_order n) (f_with_order n)) ->
    forall order (K K' : Alg), AR K K' -> AR (hidden_pass flags order K) (hidden_pass flags order K').
  Proof.
    intros Hin Hlay. induction flags as [|h r IH]; intros order K K' HK; cbn [hidden_pass]; [exact HK|].
    destruct h; [|apply IH; exact HK].
    apply AR_query; [exact Hin|]. intros o o' _. apply AR_set; [apply Hlay|]. apply IH. exact HK.
  Qed.
End Combinators.

(* ------------------------------------------------------------------------------------------------ lists *)
Section Lists.
  Context {X : Type}.
  Variable R : X -> X -> Prop.

  Lemma regroup_rel lens l l' : Forall2 R l l' -> Forall2 (Forall2 R) (regroup lens l) (regroup lens l').
  Proof.
    revert l l'. induction lens as [|n r IH]; intros l l' Hl; cbn [regroup].
    - destruct Hl; constructor; [constructor; assumption|constructor].
    - constructor; [apply rel_firstn; exact Hl|apply IH; apply rel_skipn; exact Hl].
  Qed.

  Lemma concat_rel ls ls' : Forall2 (Forall2 R) ls ls' -> Forall2 R (concat ls) (concat ls').
  Proof. induction 1; cbn [concat]; [constructor|apply rel_app; assumption]. Qed.

  Lemma map_lines_from_rel g g' : (forall i ln ln', Forall2 R ln ln' -> Forall2 R (g i ln) (g' i ln')) ->
    forall lines lines' i, Forall2 (Forall2 R) lines lines' -> Forall2 (Forall2 R) (map_lines_from i g lines) (map_lines_from i g' lines').
  Proof. intros Hg lines lines' i H. revert i. induction H; intros i; cbn [map_lines_from]; constructor; auto. Qed.

  Lemma per_line_rel lens g g' ws ws' : (forall i ln ln', Forall2 R ln ln' -> Forall2 R (g i ln) (g' i ln')) ->
    Forall2 R ws ws' -> Forall2 R (per_line lens g ws) (per_line lens g' ws').
  Proof. intros Hg Hw. unfold per_line. apply concat_rel. apply map_lines_from_rel; [exact Hg|]. apply regroup_rel. exact Hw. Qed.

  Lemma zip_total_rel {Y} (RY : Y -> Y -> Prop) f f' : (forall w w' x x', R w w' -> RY x x' -> R (f w x) (f' w' x')) ->
    forall ws ws', Forall2 R ws ws' -> forall xs xs', Forall2 RY xs xs' -> Forall2 R (zip_total f ws xs) (zip_total f' ws' xs').
  Proof.
    intros Hf ws ws' Hw. induction Hw as [|w w' l l' Hw Hl IH]; intros xs xs' Hx; cbn [zip_total]; [constructor|].
    destruct Hx; constructor; auto.
  Qed.

  Lemma maybe_rev_rel b l l' : Forall2 R l l' -> Forall2 R (maybe_rev b l) (maybe_rev b l').
  Proof. intros H. destruct b; cbn [maybe_rev]; [apply rel_rev|]; exact H. Qed.

  Lemma Forall2_lengths ls ls' : Forall2 (Forall2 R) ls ls' -> map (@length X) ls' = map (@length X) ls.
  Proof. induction 1 as [|a b l l' Hab Hl IH]; cbn [map]; [reflexivity|]. rewrite IH, (rel_length R _ _ Hab). reflexivity. Qed.
End Lists.
