(* C04 -- the scaling of a length over the exact instance XQ and the two basic relations; shared by Model/Scale.v (leaf /
   root kernels, Model/Common.v geometry) and Model/ScaleAbs.v (absolutely positioned kernels, Model/AbsPosBase.v geometry).
   Definitions only.
     x_scale k x   a length multiplied by the rational k: finite values are multiplied, +-infinity and NaN are kept
                   (for k > 0 this is x_mul (Fin k) x: lemma x_scale_is_mul in Proofs/ScalePrim.v)
     sc k a a'     "a' is a scaled by k" up to the equality of rationals (Q is not canonical: Fin (k*a + k*b) and
                   Fin (k*(a+b)) are equal values but different terms)
     dl a a'       "a' is the same dimensionless number as a" (percentage, flex factor, aspect ratio, count)
     op_rel R      the lift to Option *)
From Coq Require Import QArith.
From TV Require Import Num.Num Num.QNum.

Definition x_scale (k : Q) (x : XQ) : XQ := match x with Fin q => Fin (k * q) | o => o end.

Definition opt_scale (k : Q) (o : option XQ) : option XQ := option_map (x_scale k) o.

(* a' is the length a scaled by k *)
Definition sc (k : Q) (a a' : XQ) : Prop := xeq a' (x_scale k a).
(* a dimensionless number is unchanged *)
Definition dl (a a' : XQ) : Prop := xeq a' a.

Definition op_rel {A} (R : A -> A -> Prop) (a a' : option A) : Prop :=
  match a, a' with Some x, Some y => R x y | None, None => True | _, _ => False end.
