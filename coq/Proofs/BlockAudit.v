(* C10 (audit, wave 5c): what `resolve (collapse_with_set a b)` -- the right-hand side of the margin-collapse theorems -- is
   in the words of the property text: the larger of the two positive parts plus the smaller (most negative) of the two negative
   parts. *)
From Coq Require Import ZArith QArith Qminmax Bool List Lqa.
From TV Require Import Num.Num Num.QNum Gen.BlockGen Model.Block Proofs.BlockProofs.
Open Scope Q_scope.

Lemma qmx_qmn_are_max_min a b : qmx a b == Qmax a b /\ qmn a b == Qmin a b.
Proof.
  unfold qmx, qmn. split.
  - destruct (Qle_bool b a) eqn:E.
    + apply Qle_bool_iff in E. symmetry. apply Q.max_l. exact E.
    + symmetry. apply Q.max_r. destruct (Qlt_le_dec a b) as [H|H]; [apply Qlt_le_weak; exact H|]. apply Qle_bool_iff in H. congruence.
  - destruct (Qle_bool a b) eqn:E.
    + apply Qle_bool_iff in E. symmetry. apply Q.min_l. exact E.
    + symmetry. apply Q.min_r. destruct (Qlt_le_dec b a) as [H|H]; [apply Qlt_le_weak; exact H|]. apply Qle_bool_iff in H. congruence.
Qed.

Lemma collapse_with_set_spec (a b : MarginSet XQ) : fin_ms a -> fin_ms b ->
  exists r, ms_resolve (ms_collapse_with_set a b) = Fin r /\
            r == Qmax (val (ms_positive a)) (val (ms_positive b)) + Qmin (val (ms_negative a)) (val (ms_negative b)).
Proof.
  intros Ha Hb. rewrite (fin_ms_inv a Ha), (fin_ms_inv b Hb). rewrite emb_union, emb_res.
  eexists. split; [reflexivity|]. unfold q_res, q_union, qs_of. cbn [qp qn emb ms_positive ms_negative val].
  destruct (qmx_qmn_are_max_min (val (ms_positive a)) (val (ms_positive b))) as [E1 _].
  destruct (qmx_qmn_are_max_min (val (ms_negative a)) (val (ms_negative b))) as [_ E2].
  rewrite E1, E2. reflexivity.
Qed.
