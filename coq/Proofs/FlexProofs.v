(* Proofs about Model/Flex.v over the exact instance XQ (finite inputs): the freeze/violation loop of
   resolve_flexible_lengths terminates within its fuel and exhausts flexibility (C07_exhausted), and the
   main-axis accumulator keeps document order without overlap (C07_order_no_overlap). *)
From Coq Require Import ZArith QArith Bool List Lia Lqa.
From TV Require Import Num.Num Num.QNum Gen.FlexGen Model.Flex Proofs.FlexQ.
Import ListNotations.
Open Scope Q_scope.

Notation Item := (FlexItem XQ).

(* ---------- Q views of an item *)
Definition qb (c : Item) : Q := val (fi_basis c).
Definition qib (c : Item) : Q := val (fi_inner_basis c).
Definition qh (c : Item) : Q := val (fi_hyp_inner c).
Definition qho (c : Item) : Q := val (fi_hyp_outer c).
Definition qmin (c : Item) : Q := val (fi_min c).
Definition qmaxo (c : Item) : option Q := option_map val (fi_max c).
Definition qg (c : Item) : Q := val (fi_grow c).
Definition qs (c : Item) : Q := val (fi_shrink c).
Definition qm (c : Item) : Q := val (fi_margin_start c) + val (fi_margin_end c).
Definition qt (c : Item) : Q := val (fi_target c).
Definition qot (c : Item) : Q := val (fi_outer_target c).
Definition qv (c : Item) : Q := val (fi_violation c).
Definition qcl (c : Item) (x : Q) : Q := qclamp (qmin c) (qmaxo c) x.

Definition fin_opt (o : option XQ) : Prop := match o with Some x => finite x | None => True end.

Definition item_fin (c : Item) : Prop :=
  finite (fi_basis c) /\ finite (fi_inner_basis c) /\ finite (fi_hyp_inner c) /\ finite (fi_hyp_outer c) /\
  finite (fi_min c) /\ fin_opt (fi_max c) /\ finite (fi_grow c) /\ finite (fi_shrink c) /\
  finite (fi_margin_start c) /\ finite (fi_margin_end c) /\
  finite (fi_target c) /\ finite (fi_outer_target c) /\ finite (fi_violation c).

(* the fields the loop never writes *)
Definition static_eq (c c' : Item) : Prop :=
  fi_basis c' = fi_basis c /\ fi_inner_basis c' = fi_inner_basis c /\ fi_hyp_inner c' = fi_hyp_inner c /\
  fi_hyp_outer c' = fi_hyp_outer c /\ fi_min c' = fi_min c /\ fi_max c' = fi_max c /\ fi_grow c' = fi_grow c /\
  fi_shrink c' = fi_shrink c /\ fi_margin_start c' = fi_margin_start c /\ fi_margin_end c' = fi_margin_end c /\
  fi_margin_start_auto c' = fi_margin_start_auto c /\ fi_margin_end_auto c' = fi_margin_end_auto c /\
  fi_inset c' = fi_inset c /\ fi_offset c' = fi_offset c.

Lemma static_refl c : static_eq c c.
Proof. repeat split. Qed.

Lemma static_q c c' : static_eq c c' ->
  qb c' = qb c /\ qib c' = qib c /\ qh c' = qh c /\ qho c' = qho c /\ qmin c' = qmin c /\ qmaxo c' = qmaxo c /\
  qg c' = qg c /\ qs c' = qs c /\ qm c' = qm c.
Proof.
  unfold static_eq, qb, qib, qh, qho, qmin, qmaxo, qg, qs, qm. intros H.
  decompose [and] H. repeat split; congruence.
Qed.

Lemma margin_sum_fin c : item_fin c -> finite (margin_sum c) /\ val (margin_sum c) = qm c.
Proof.
  intros F. unfold margin_sum, qm. apply add_fin; unfold item_fin in F; tauto.
Qed.

Ltac fi_simpl :=
  cbn [set_target set_violation set_outer_target set_frozen set_offset set_margins fi_basis fi_inner_basis fi_hyp_inner
       fi_hyp_outer fi_min fi_max fi_grow fi_shrink fi_margin_start fi_margin_end fi_margin_start_auto fi_margin_end_auto
       fi_inset fi_frozen fi_target fi_outer_target fi_violation fi_offset].
Ltac fi_simpl_in H :=
  cbn [set_target set_violation set_outer_target set_frozen set_offset set_margins fi_basis fi_inner_basis fi_hyp_inner
       fi_hyp_outer fi_min fi_max fi_grow fi_shrink fi_margin_start fi_margin_end fi_margin_start_auto fi_margin_end_auto
       fi_inset fi_frozen fi_target fi_outer_target fi_violation fi_offset] in H.

(* clamp_target on a finite item *)
Lemma maybe_clamp_fin (x mn : XQ) (mx : option XQ) : finite x -> finite mn -> fin_opt mx ->
  finite (fmax (maybe_clamp_f x (Some mn) mx) zero) /\
  val (fmax (maybe_clamp_f x (Some mn) mx) zero) = qclamp (val mn) (option_map val mx) (val x).
Proof.
  intros Hx Hn Hm. unfold maybe_clamp_f, qclamp. destruct mx as [m|]; cbn [fin_opt option_map] in *.
  - destruct (fmin_fin x m Hx Hm) as [A1 A2]. destruct (fmax_fin _ mn A1 Hn) as [B1 B2].
    destruct (fmax_fin _ zero B1 fin_zero) as [C1 C2]. split; [assumption|].
    rewrite C2, B2, A2. reflexivity.
  - destruct (fmax_fin x mn Hx Hn) as [B1 B2].
    destruct (fmax_fin _ zero B1 fin_zero) as [C1 C2]. split; [assumption|].
    rewrite C2, B2. reflexivity.
Qed.

(* fix_violation on an item whose (fresh) target is x *)
Lemma fix_violation_fields (c : Item) (x : XQ) : item_fin c -> finite x ->
  let c' := fix_violation (set_target c x) in
  static_eq c c' /\ item_fin c' /\ fi_frozen c' = fi_frozen c /\
  qt c' = qcl c (val x) /\ qv c' = qcl c (val x) - val x /\ qot c' = qcl c (val x) + qm c.
Proof.
  intros F Hx c'.
  assert (Fm := margin_sum_fin c F).
  unfold item_fin in F. decompose [and] F. clear F.
  destruct (maybe_clamp_fin x (fi_min c) (fi_max c)) as [K1 K2]; try assumption.
  subst c'. unfold fix_violation, clamp_target. fi_simpl. unfold margin_sum. fi_simpl.
  set (cl := fmax (maybe_clamp_f x (Some (fi_min c)) (fi_max c)) zero) in *.
  destruct (sub_fin cl x K1 Hx) as [S1 S2].
  destruct Fm as [Fm1 Fm2]. unfold margin_sum in Fm1, Fm2.
  destruct (add_fin cl _ K1 Fm1) as [A1 A2].
  split; [repeat split|]. split.
  { unfold item_fin. fi_simpl. repeat split; assumption. }
  split; [reflexivity|].
  unfold qt, qv, qot, qcl, qmin, qmaxo. fi_simpl.
  rewrite S2, A2, K2, Fm2. repeat split; reflexivity.
Qed.

Lemma fix_violation_stale (c : Item) : fix_violation (set_target c (fi_target c)) = fix_violation c.
Proof. reflexivity. Qed.

Lemma freeze_by_violation_fields (V : XQ) (c : Item) : finite V -> item_fin c ->
  let c' := freeze_by_violation V c in
  static_eq c c' /\ item_fin c' /\ qt c' = qt c /\ qot c' = qot c /\ qv c' = qv c /\
  (0 < val V -> (fi_frozen c' = true <-> 0 < qv c)) /\
  (val V < 0 -> (fi_frozen c' = true <-> qv c < 0)) /\
  (val V == 0 -> fi_frozen c' = true).
Proof.
  intros FV F c'. subst c'. unfold freeze_by_violation, gtb.
  assert (Fv : finite (fi_violation c)) by (unfold item_fin in F; tauto).
  assert (Z1 : forall b, static_eq c (set_frozen c b)) by (intro; repeat split).
  assert (Z2 : forall b, item_fin (set_frozen c b)) by (intro; exact F).
  destruct (ltb zero V) eqn:E1; [|destruct (ltb V zero) eqn:E2].
  - apply ltb_true in E1; [|exact fin_zero|assumption]. rewrite val_zero in E1.
    split; [apply Z1|]. split; [apply Z2|]. split; [reflexivity|]. split; [reflexivity|]. split; [reflexivity|].
    fi_simpl. split; [|split].
    + intros _. split; intro K.
      * apply ltb_true in K; [|exact fin_zero|assumption]. exact K.
      * apply ltb_true; [exact fin_zero|assumption|exact K].
    + intro K. exfalso. lra.
    + intro K. exfalso. lra.
  - apply ltb_true in E2; [|assumption|exact fin_zero]. rewrite val_zero in E2.
    split; [apply Z1|]. split; [apply Z2|]. split; [reflexivity|]. split; [reflexivity|]. split; [reflexivity|].
    fi_simpl. split; [|split].
    + intro K. exfalso. lra.
    + intros _. split; intro K.
      * apply ltb_true in K; [|assumption|exact fin_zero]. exact K.
      * apply ltb_true; [assumption|exact fin_zero|exact K].
    + intro K. exfalso. lra.
  - apply ltb_false in E1; [|exact fin_zero|assumption]. apply ltb_false in E2; [|assumption|exact fin_zero].
    rewrite val_zero in *.
    split; [apply Z1|]. split; [apply Z2|]. split; [reflexivity|]. split; [reflexivity|]. split; [reflexivity|].
    fi_simpl. split; [|split].
    + intro K. exfalso. lra.
    + intro K. exfalso. lra.
    + intros _. reflexivity.
Qed.

(* ---------- list plumbing *)
Lemma on_unfrozen_fuse (f g : Item -> Item) l : (forall c, fi_frozen (g c) = fi_frozen c) ->
  map (on_unfrozen f) (map (on_unfrozen g) l) = map (on_unfrozen (fun c => f (g c))) l.
Proof.
  intro Hg. rewrite map_map. apply map_ext. intro c. unfold on_unfrozen.
  destruct (fi_frozen c) eqn:E; [rewrite E; reflexivity|]. rewrite Hg, E. reflexivity.
Qed.

Definition viol_sum (l : list Item) : XQ :=
  fold_left (fun acc c => add acc (fi_violation c)) (filter unfrozen l) zero.

Lemma loop_body_unfold k items :
  loop_body k items =
  let items2 := map (on_unfrozen fix_violation) (distribute k (free_space_of k items) items) in
  map (on_unfrozen (freeze_by_violation (viol_sum items2))) items2.
Proof. reflexivity. Qed.

Lemma viol_sum_gen (h : Item -> Item) l :
  (forall c, fi_frozen (h c) = fi_frozen c) ->
  (forall c, In c l -> fi_frozen c = false -> finite (fi_violation (h c))) ->
  forall acc, finite acc ->
     finite (fold_left (fun a c => add a (fi_violation c)) (filter unfrozen (map (on_unfrozen h) l)) acc) /\
     val (fold_left (fun a c => add a (fi_violation c)) (filter unfrozen (map (on_unfrozen h) l)) acc) ==
       val acc + qsum (fun c => if fi_frozen c then 0 else qv (h c)) l.
Proof.
  intros Hh Hf. induction l as [|a l IH]; intros acc Ha.
  - simpl. split; [assumption|lra].
  - cbn [map filter qsum].
    assert (E0 : unfrozen (on_unfrozen h a) = negb (fi_frozen a)).
    { unfold on_unfrozen, unfrozen. destruct (fi_frozen a) eqn:E; [rewrite E|rewrite Hh, E]; reflexivity. }
    rewrite E0. destruct (fi_frozen a) eqn:E; cbn [negb].
    + destruct (IH (fun c Hi => Hf c (or_intror Hi)) acc Ha) as [I1 I2]. split; [assumption|].
      rewrite I2. lra.
    + cbn [fold_left]. replace (on_unfrozen h a) with (h a) by (unfold on_unfrozen; rewrite E; reflexivity).
      pose proof (Hf a (or_introl eq_refl) E) as Fa.
      destruct (add_fin acc _ Ha Fa) as [A1 A2].
      destruct (IH (fun c Hi => Hf c (or_intror Hi)) _ A1) as [I1 I2]. split; [assumption|].
      rewrite I2, A2. unfold qv. lra.
Qed.

Lemma viol_sum_map (h : Item -> Item) l :
  (forall c, fi_frozen (h c) = fi_frozen c) ->
  (forall c, In c l -> fi_frozen c = false -> finite (fi_violation (h c))) ->
  finite (viol_sum (map (on_unfrozen h) l)) /\
  val (viol_sum (map (on_unfrozen h) l)) == qsum (fun c => if fi_frozen c then 0 else qv (h c)) l.
Proof.
  intros Hh Hf. unfold viol_sum.
  destruct (viol_sum_gen h l Hh Hf zero fin_zero) as [G1 G2]. split; [assumption|]. rewrite G2, val_zero. lra.
Qed.

Lemma sum_grow_fin l : (forall c, In c l -> finite (fi_grow c)) ->
  finite (sum_grow l) /\ val (sum_grow l) == qsum (fun c => if fi_frozen c then 0 else qg c) l.
Proof.
  intro Hf. unfold sum_grow.
  destruct (fold_add_fin fi_grow (filter unfrozen l)) with (acc := (zero : XQ)) as [A1 A2].
  { intros x Hx. apply filter_In in Hx. apply Hf. tauto. }
  { exact fin_zero. }
  split; [assumption|]. rewrite A2, val_zero, qsum_filter.
  rewrite Qplus_0_l. apply qsum_ext. intros c _. unfold unfrozen, qg. destruct (fi_frozen c); reflexivity.
Qed.

Lemma sum_shrink_fin l : (forall c, In c l -> finite (fi_shrink c)) ->
  finite (sum_shrink l) /\ val (sum_shrink l) == qsum (fun c => if fi_frozen c then 0 else qs c) l.
Proof.
  intro Hf. unfold sum_shrink.
  destruct (fold_add_fin fi_shrink (filter unfrozen l)) with (acc := (zero : XQ)) as [A1 A2].
  { intros x Hx. apply filter_In in Hx. apply Hf. tauto. }
  { exact fin_zero. }
  split; [assumption|]. rewrite A2, val_zero, qsum_filter.
  rewrite Qplus_0_l. apply qsum_ext. intros c _. unfold unfrozen, qs. destruct (fi_frozen c); reflexivity.
Qed.

Lemma used_space_fin (g : XQ) l : finite g -> (forall c, In c l -> item_fin c) ->
  finite (used_space_of g l) /\
  val (used_space_of g l) == val g + qsum (fun c => if fi_frozen c then qot c else qb c + qm c) l.
Proof.
  intros Hg Hf. unfold used_space_of.
  destruct (fsum_fin (fun c : Item => if fi_frozen c then fi_outer_target c else add (fi_basis c) (margin_sum c)) l) as [A1 A2].
  { intros c Hc. specialize (Hf c Hc). destruct (fi_frozen c).
    - unfold item_fin in Hf; tauto.
    - destruct (margin_sum_fin c Hf). apply add_fin; [unfold item_fin in Hf; tauto | assumption]. }
  destruct (add_fin g _ Hg A1) as [B1 B2]. split; [assumption|]. rewrite B2, A2.
  apply Qplus_inj_l. apply qsum_ext. intros c Hc. specialize (Hf c Hc). destruct (fi_frozen c); [reflexivity|].
  destruct (margin_sum_fin c Hf) as [M1 M2].
  destruct (add_fin (fi_basis c) (margin_sum c)) as [_ E]; [unfold item_fin in Hf; tauto | assumption |].
  rewrite E, M2. reflexivity.
Qed.

Definition cnt (l : list Item) : nat := length (filter unfrozen l).

Lemma cnt_zero_all_frozen (l : list Item) : forallb fi_frozen l = true -> cnt l = 0%nat.
Proof.
  unfold cnt. induction l; simpl; auto. intro H. apply andb_true_iff in H. destruct H as [H1 H2].
  unfold unfrozen at 1. rewrite H1. simpl. auto.
Qed.

Lemma cnt_map_le (step : Item -> Item) l :
  (forall c, In c l -> fi_frozen c = true -> fi_frozen (step c) = true) ->
  (cnt (map step l) <= cnt l)%nat.
Proof.
  unfold cnt. induction l as [|a l IH]; intro Hk; [simpl; lia|].
  specialize (IH (fun c Hi => Hk c (or_intror Hi))). cbn [map filter].
  destruct (unfrozen (step a)) eqn:E1; destruct (unfrozen a) eqn:E2; cbn [length]; try lia.
  exfalso. unfold unfrozen in *. apply negb_false_iff in E2. apply negb_true_iff in E1.
  rewrite (Hk a (or_introl eq_refl) E2) in E1. discriminate.
Qed.

Lemma cnt_map_lt (step : Item -> Item) l :
  (forall c, In c l -> fi_frozen c = true -> fi_frozen (step c) = true) ->
  (exists c, In c l /\ fi_frozen c = false /\ fi_frozen (step c) = true) ->
  (cnt (map step l) < cnt l)%nat.
Proof.
  intros Hk [c0 [Hin [H0 H1]]].
  induction l as [|a l IH]; [destruct Hin|].
  pose proof (cnt_map_le step l (fun c Hi => Hk c (or_intror Hi))) as Hle.
  unfold cnt in *. cbn [map filter].
  destruct Hin as [<- | Hin].
  - assert (U1 : unfrozen (step a) = false) by (unfold unfrozen; rewrite H1; reflexivity).
    assert (U2 : unfrozen a = true) by (unfold unfrozen; rewrite H0; reflexivity).
    rewrite U1, U2. cbn [length]. lia.
  - specialize (IH (fun c Hi => Hk c (or_intror Hi)) Hin).
    destruct (unfrozen (step a)) eqn:E1; destruct (unfrozen a) eqn:E2; cbn [length]; try lia.
    exfalso. unfold unfrozen in *. apply negb_false_iff in E2. apply negb_true_iff in E1.
    rewrite (Hk a (or_introl eq_refl) E2) in E1. discriminate.
Qed.

Lemma forallb_frozen_false (l : list Item) : forallb fi_frozen l = false -> exists c, In c l /\ fi_frozen c = false.
Proof.
  induction l; simpl; [discriminate|]. intro H. apply andb_false_iff in H. destruct H as [H|H].
  - exists a; auto.
  - destruct (IHl H) as [c [Hi Hc]]. exists c; auto.
Qed.

Lemma forallb_frozen_true (l : list Item) : forallb fi_frozen l = true -> forall c, In c l -> fi_frozen c = true.
Proof. intro H. apply forallb_forall. exact H. Qed.

Lemma static_trans a b c : static_eq a b -> static_eq b c -> static_eq a c.
Proof. unfold static_eq. intros H1 H2. decompose [and] H1. decompose [and] H2. repeat split; congruence. Qed.

(* one unfrozen item through steps 4d + 4e, its (fresh or stale) target being x *)
Lemma step_fields (V x : XQ) (c : Item) : finite V -> finite x -> item_fin c ->
  let c' := freeze_by_violation V (fix_violation (set_target c x)) in
  static_eq c c' /\ item_fin c' /\ qt c' = qcl c (val x) /\ qot c' = qcl c (val x) + qm c /\
  (0 < val V -> (fi_frozen c' = true <-> 0 < qcl c (val x) - val x)) /\
  (val V < 0 -> (fi_frozen c' = true <-> qcl c (val x) - val x < 0)) /\
  (val V == 0 -> fi_frozen c' = true).
Proof.
  intros FV Fx F c'.
  destruct (fix_violation_fields c x F Fx) as [S1 [F1 [_ [T1 [V1 O1]]]]].
  destruct (freeze_by_violation_fields V _ FV F1) as [S2 [F2 [T2 [O2 [_ [P1 [P2 P3]]]]]]].
  subst c'. split; [exact (static_trans _ _ _ S1 S2)|]. split; [assumption|].
  rewrite T2, O2, T1, O1. rewrite V1 in P1, P2. repeat split; try assumption; try reflexivity.
  - apply P1. assumption. - apply P1. assumption. - apply P2. assumption. - apply P2. assumption.
Qed.

(* ================= growing ================= *)
Definition gprem (c : Item) : Prop :=
  0 <= qg c /\ (qg c == 0 \/ 1 <= qg c) /\ qh c == qcl c (qb c).

Definition capc (c : Item) : Q := match qmaxo c with Some m => effmax (qmin c) m | None => 0 end.
Definition LoT (c : Item) : Q := if fi_frozen c then qot c else qh c + qm c.
Definition UpT (c : Item) : Q :=
  if fi_frozen c then qot c else if Qeq_bool (qg c) 0 then qh c + qm c else capc c + qm c.
Definition gopen (c : Item) : bool :=
  negb (fi_frozen c) && negb (Qeq_bool (qg c) 0) && match fi_max c with None => true | Some _ => false end.
Definition at_max (c : Item) : Prop := exists m, qmaxo c = Some m /\ qt c == effmax (qmin c) m.

Record InvG (M gaps : Q) (items : list Item) : Prop := {
  ig_wf : forall c, In c items -> item_fin c /\ gprem c;
  ig_unf : forall c, In c items -> fi_frozen c = false -> qb c <= qh c /\ (qg c == 0 -> qt c == qh c);
  ig_fro : forall c, In c items -> fi_frozen c = true -> qot c == qt c + qm c;
  ig_lo : gaps + qsum LoT items < M;
  ig_up : (forall c, In c items -> fi_frozen c = true -> ~ qg c == 0 -> at_max c) \/
          existsb gopen items = true \/ M < gaps + qsum UpT items
}.

(* what the loop guarantees on exit, growing *)
Record PostG (M gaps : Q) (res : list Item) : Prop := {
  pg_frozen : forall c, In c res -> fi_frozen c = true;
  pg_fin : forall c, In c res -> item_fin c;
  pg_outer : forall c, In c res -> qot c == qt c + qm c;
  pg_law : gaps + qsum qot res == M \/ (forall c, In c res -> ~ qg c == 0 -> at_max c)
}.

Lemma existsb_false_forall {A} (p : A -> bool) l : existsb p l = false -> forall x, In x l -> p x = false.
Proof.
  intros H x Hx. destruct (p x) eqn:E; auto.
  assert (existsb p l = true) by (apply existsb_exists; exists x; auto). congruence.
Qed.

Lemma gprem_static c c' : static_eq c c' -> gprem c -> gprem c'.
Proof.
  intros S P. destruct (static_q c c' S) as [E1 [E2 [E3 [E4 [E5 [E6 [E7 [E8 E9]]]]]]]].
  unfold gprem, qcl in *. rewrite E1, E3, E5, E6, E7. exact P.
Qed.

Lemma invG_all_frozen M gaps items : InvG M gaps items -> (forall c, In c items -> fi_frozen c = true) ->
  PostG M gaps items.
Proof.
  intros I Hf. constructor; auto.
  - intros c Hc. apply (ig_wf _ _ _ I c Hc).
  - intros c Hc. apply (ig_fro _ _ _ I c Hc (Hf c Hc)).
  - right. destruct (ig_up _ _ _ I) as [L | [O | U]].
    + intros c Hc. apply L; auto.
    + exfalso. apply existsb_exists in O. destruct O as [c [Hc O]]. unfold gopen in O. rewrite (Hf c Hc) in O. discriminate.
    + exfalso. pose proof (ig_lo _ _ _ I) as L.
      assert (E : qsum UpT items == qsum LoT items).
      { apply qsum_ext. intros c Hc. unfold UpT, LoT. rewrite (Hf c Hc). reflexivity. }
      lra.
Qed.

Section GrowStep.
  Variables (M gaps V : Q) (items : list Item) (step : Item -> Item) (T : Item -> Q).
  Hypothesis Inv : InvG M gaps items.
  Hypothesis HT1 : forall c, In c items -> fi_frozen c = false -> qb c <= T c.
  Hypothesis HT2 : forall c, In c items -> fi_frozen c = false -> qg c == 0 -> T c == qb c.
  Hypothesis HS : gaps + qsum (fun c => if fi_frozen c then qot c else T c + qm c) items == M.
  Hypothesis HV : V == qsum (fun c => if fi_frozen c then 0 else qcl c (T c) - T c) items.
  Hypothesis Hfz : forall c, In c items -> fi_frozen c = true -> step c = c.
  Hypothesis Hun : forall c, In c items -> fi_frozen c = false ->
    static_eq c (step c) /\ item_fin (step c) /\ qt (step c) == qcl c (T c) /\ qot (step c) == qcl c (T c) + qm c /\
    (0 < V -> (fi_frozen (step c) = true <-> 0 < qcl c (T c) - T c)) /\
    (V < 0 -> (fi_frozen (step c) = true <-> qcl c (T c) - T c < 0)) /\
    (V == 0 -> fi_frozen (step c) = true).

  Let MidT (c : Item) : Q := if fi_frozen c then qot c else qcl c (T c) + qm c.

  Lemma g_mid : gaps + qsum MidT items == M + V.
  Proof.
    assert (E : qsum MidT items ==
                qsum (fun c => if fi_frozen c then qot c else T c + qm c) items +
                qsum (fun c => if fi_frozen c then 0 else qcl c (T c) - T c) items).
    { rewrite <- qsum_add. apply qsum_ext. intros c _. unfold MidT. destruct (fi_frozen c); lra. }
    rewrite E, HV. lra.
  Qed.

  (* facts about an unfrozen item of the current state *)
  Lemma g_unf_facts c : In c items -> fi_frozen c = false ->
    qh c == qcl c (qb c) /\ qb c <= qh c /\ qh c <= qcl c (T c) /\ (qg c == 0 -> qcl c (T c) == qh c).
  Proof.
    intros Hc Hf. destruct (ig_wf _ _ _ Inv c Hc) as [_ [_ [_ P]]]. destruct (ig_unf _ _ _ Inv c Hc Hf) as [B _].
    split; [assumption|]. split; [assumption|]. split.
    - rewrite P. apply qclamp_mono. apply HT1; assumption.
    - intro G. rewrite P. apply qclamp_ext. apply HT2; assumption.
  Qed.

  Lemma g_wf' : forall c', In c' (map step items) -> item_fin c' /\ gprem c'.
  Proof.
    intros c' Hc'. apply in_map_iff in Hc'. destruct Hc' as [c [<- Hc]].
    destruct (ig_wf _ _ _ Inv c Hc) as [F P].
    destruct (fi_frozen c) eqn:E.
    - rewrite (Hfz c Hc E). auto.
    - destruct (Hun c Hc E) as [S [F' _]]. split; [assumption|]. eapply gprem_static; eassumption.
  Qed.

  Lemma g_fro' : forall c', In c' (map step items) -> fi_frozen c' = true -> qot c' == qt c' + qm c'.
  Proof.
    intros c' Hc' Hf'. apply in_map_iff in Hc'. destruct Hc' as [c [<- Hc]].
    destruct (fi_frozen c) eqn:E.
    - rewrite (Hfz c Hc E) in *. apply (ig_fro _ _ _ Inv c Hc E).
    - destruct (Hun c Hc E) as [S [_ [T1 [O1 _]]]].
      destruct (static_q _ _ S) as [_ [_ [_ [_ [_ [_ [_ [_ Em]]]]]]]]. rewrite O1, T1, Em. reflexivity.
  Qed.

  Lemma g_unf' : forall c', In c' (map step items) -> fi_frozen c' = false ->
    qb c' <= qh c' /\ (qg c' == 0 -> qt c' == qh c').
  Proof.
    intros c' Hc' Hf'. apply in_map_iff in Hc'. destruct Hc' as [c [<- Hc]].
    destruct (fi_frozen c) eqn:E.
    - rewrite (Hfz c Hc E) in Hf'. congruence.
    - destruct (Hun c Hc E) as [S [_ [T1 _]]].
      destruct (static_q _ _ S) as [Eb [_ [Eh [_ [_ [_ [Eg _]]]]]]].
      destruct (g_unf_facts c Hc E) as [_ [B [_ Z]]].
      rewrite Eb, Eh, Eg. split; [assumption|]. intro G. rewrite T1. apply Z. assumption.
  Qed.

  Lemma g_exact : V == 0 -> PostG M gaps (map step items).
  Proof.
    intro V0.
    assert (AF : forall c', In c' (map step items) -> fi_frozen c' = true).
    { intros c' Hc'. apply in_map_iff in Hc'. destruct Hc' as [c [<- Hc]]. destruct (fi_frozen c) eqn:E.
      - rewrite (Hfz c Hc E). assumption.
      - apply (Hun c Hc E). assumption. }
    constructor; auto.
    - intros c Hc. apply g_wf'. assumption.
    - intros c Hc. apply g_fro'; auto.
    - left. rewrite qsum_map.
      assert (E : qsum (fun x => qot (step x)) items == qsum MidT items).
      { apply qsum_ext. intros c Hc. unfold MidT. destruct (fi_frozen c) eqn:E.
        - rewrite (Hfz c Hc E). reflexivity.
        - apply (Hun c Hc E). }
      rewrite E. pose proof g_mid. lra.
  Qed.

  Lemma g_pos : 0 < V -> InvG M gaps (map step items) /\ (cnt (map step items) < cnt items)%nat.
  Proof.
    intro Vp. split.
    - constructor.
      + exact g_wf'.
      + exact g_unf'.
      + exact g_fro'.
      + (* Lo is unchanged: an item frozen at its min has hyp = that min *)
        rewrite qsum_map.
        assert (E : qsum (fun x => LoT (step x)) items == qsum LoT items).
        { apply qsum_ext. intros c Hc. unfold LoT at 2. destruct (fi_frozen c) eqn:E.
          - rewrite (Hfz c Hc E). unfold LoT. rewrite E. reflexivity.
          - destruct (Hun c Hc E) as [S [_ [T1 [O1 [P _]]]]]. specialize (P Vp).
            destruct (static_q _ _ S) as [_ [_ [Eh [_ [_ [_ [_ [_ Em]]]]]]]].
            destruct (g_unf_facts c Hc E) as [Hh [B _]].
            unfold LoT. destruct (fi_frozen (step c)) eqn:E'.
            + rewrite O1. assert (L : 0 < qcl c (T c) - T c) by (apply P; reflexivity).
              assert (K : qcl c (qb c) == qcl c (T c)).
              { unfold qcl in *. apply qclamp_min_stable; [apply HT1; assumption | lra]. }
              rewrite Hh, K. reflexivity.
            + rewrite Eh, Em. reflexivity. }
        rewrite E. apply (ig_lo _ _ _ Inv).
      + destruct (existsb gopen (map step items)) eqn:EO; [right; left; reflexivity|].
        right. right. rewrite qsum_map.
        assert (L : qsum MidT items <= qsum (fun x => UpT (step x)) items).
        { apply qsum_le. intros c Hc. unfold MidT. destruct (fi_frozen c) eqn:E.
          - rewrite (Hfz c Hc E). unfold UpT. rewrite E. lra.
          - destruct (Hun c Hc E) as [S [_ [T1 [O1 _]]]].
            destruct (static_q _ _ S) as [_ [_ [Eh [_ [Emn [Emx [Eg [_ Em]]]]]]]].
            destruct (g_unf_facts c Hc E) as [Hh [B [_ Z]]].
            unfold UpT. destruct (fi_frozen (step c)) eqn:E'; [rewrite O1; lra|].
            rewrite Eg, Eh, Em. destruct (Qeq_bool (qg c) 0) eqn:G0.
            + apply Qeq_bool_iff in G0. rewrite (Z G0). lra.
            + (* not open: the item has a max *)
              pose proof (existsb_false_forall _ _ EO (step c) (in_map step _ _ Hc)) as NO.
              unfold gopen in NO. rewrite E', Eg, G0 in NO. cbn [negb andb] in NO.
              destruct S as [_ [_ [_ [_ [_ [Sx _]]]]]]. rewrite Sx in NO.
              unfold capc. rewrite Emx, Emn. unfold qcl, qmaxo.
              destruct (fi_max c) as [m|]; [|discriminate]. cbn [option_map].
              pose proof (qclamp_le_effmax (qmin c) (val m) (T c)) as K. lra. }
        pose proof g_mid. lra.
    - apply cnt_map_lt.
      + intros c Hc E. rewrite (Hfz c Hc E). assumption.
      + assert (P : 0 < qsum (fun c => if fi_frozen c then 0 else qcl c (T c) - T c) items) by (rewrite <- HV; assumption).
        apply qsum_pos_ex in P. destruct P as [c [Hc P]]. exists c. split; [assumption|].
        destruct (fi_frozen c) eqn:E; [lra|]. split; [reflexivity|].
        destruct (Hun c Hc E) as [_ [_ [_ [_ [Pp _]]]]]. apply (Pp Vp). exact P.
  Qed.

  Lemma g_neg : V < 0 -> InvG M gaps (map step items) /\ (cnt (map step items) < cnt items)%nat.
  Proof.
    intro Vn. split.
    - constructor.
      + exact g_wf'.
      + exact g_unf'.
      + exact g_fro'.
      + rewrite qsum_map.
        assert (L : qsum (fun x => LoT (step x)) items <= qsum MidT items).
        { apply qsum_le. intros c Hc. unfold MidT. destruct (fi_frozen c) eqn:E.
          - rewrite (Hfz c Hc E). unfold LoT. rewrite E. lra.
          - destruct (Hun c Hc E) as [S [_ [T1 [O1 _]]]].
            destruct (static_q _ _ S) as [_ [_ [Eh [_ [_ [_ [_ [_ Em]]]]]]]].
            destruct (g_unf_facts c Hc E) as [_ [_ [K _]]].
            unfold LoT. destruct (fi_frozen (step c)); [rewrite O1; lra|]. rewrite Eh, Em. lra. }
        pose proof g_mid. lra.
      + destruct (ig_up _ _ _ Inv) as [A | [O | U]].
        * left. intros c' Hc' Hf' Hg'. apply in_map_iff in Hc'. destruct Hc' as [c [<- Hc]].
          destruct (fi_frozen c) eqn:E.
          -- rewrite (Hfz c Hc E) in *. apply A; assumption.
          -- destruct (Hun c Hc E) as [S [_ [T1 [_ [_ [P _]]]]]]. specialize (P Vn).
             assert (L : qcl c (T c) - T c < 0) by (apply P; assumption).
             destruct (qclamp_lt_max (qmin c) (qmaxo c) (T c)) as [m [Em Ec]]; [unfold qcl in L; lra|].
             destruct (static_q _ _ S) as [_ [_ [_ [_ [Emn [Emx _]]]]]].
             exists m. rewrite Emx, Emn. split; [assumption|]. rewrite T1. exact Ec.
        * right. left. apply existsb_exists in O. destruct O as [c [Hc O]]. apply existsb_exists.
          exists (step c). split; [apply in_map; assumption|].
          unfold gopen in O. apply andb_true_iff in O. destruct O as [O O3]. apply andb_true_iff in O. destruct O as [O1 O2].
          apply negb_true_iff in O1. destruct (Hun c Hc O1) as [S [_ [_ [_ [_ [P _]]]]]]. specialize (P Vn).
          destruct (static_q _ _ S) as [_ [_ [_ [_ [_ [_ [Eg _]]]]]]].
          assert (Sx : fi_max (step c) = fi_max c) by (unfold static_eq in S; tauto).
          unfold gopen. rewrite Eg, O2, Sx, O3.
          destruct (fi_frozen (step c)) eqn:E'; [|reflexivity]. exfalso.
          assert (L : qcl c (T c) - T c < 0) by (apply P; reflexivity).
          destruct (qclamp_lt_max (qmin c) (qmaxo c) (T c)) as [m [Em _]]; [unfold qcl in L; lra|].
          unfold qmaxo in Em. destruct (fi_max c); discriminate.
        * right. right. rewrite qsum_map.
          assert (E : qsum (fun x => UpT (step x)) items == qsum UpT items).
          { apply qsum_ext. intros c Hc. unfold UpT at 2. destruct (fi_frozen c) eqn:E.
            - rewrite (Hfz c Hc E). unfold UpT. rewrite E. reflexivity.
            - destruct (Hun c Hc E) as [S [_ [T1 [O1 [_ [P _]]]]]]. specialize (P Vn).
              destruct (static_q _ _ S) as [_ [_ [Eh [_ [Emn [Emx [Eg [_ Em]]]]]]]].
              destruct (g_unf_facts c Hc E) as [Hh [B [K Z]]].
              unfold UpT. destruct (fi_frozen (step c)) eqn:E'.
              + assert (L : qcl c (T c) - T c < 0) by (apply P; reflexivity).
                destruct (Qeq_bool (qg c) 0) eqn:G0.
                * apply Qeq_bool_iff in G0. exfalso. pose proof (HT2 c Hc E G0). pose proof (Z G0). lra.
                * destruct (qclamp_lt_max (qmin c) (qmaxo c) (T c)) as [m [Emm Ec]]; [unfold qcl in L; lra|].
                  unfold capc. rewrite Emm. rewrite O1. unfold qcl. rewrite Ec. reflexivity.
              + unfold capc. rewrite Eg, Eh, Em, Emx, Emn. reflexivity. }
          rewrite E. assumption.
    - apply cnt_map_lt.
      + intros c Hc E. rewrite (Hfz c Hc E). assumption.
      + assert (P : qsum (fun c => if fi_frozen c then 0 else qcl c (T c) - T c) items < 0) by (rewrite <- HV; assumption).
        apply qsum_neg_ex in P. destruct P as [c [Hc P]]. exists c. split; [assumption|].
        destruct (fi_frozen c) eqn:E; [lra|]. split; [reflexivity|].
        destruct (Hun c Hc E) as [_ [_ [_ [_ [_ [Pn _]]]]]]. apply (Pn Vn). exact P.
  Qed.
End GrowStep.

(* ---------- connecting the abstract step with loop_body *)
Definition gtarget (free sfg : XQ) (c : Item) : XQ := add (fi_basis c) (mul free (div (fi_grow c) sfg)).
Definition gstep (free sfg V : XQ) : Item -> Item :=
  on_unfrozen (fun c => freeze_by_violation V (fix_violation (set_target c (gtarget free sfg c)))).
Definition nstep (V : XQ) : Item -> Item := on_unfrozen (fun c => freeze_by_violation V (fix_violation c)).

Lemma loop_body_nodist k items :
  distribute k (free_space_of k items) items = items ->
  loop_body k items = map (nstep (viol_sum (map (on_unfrozen fix_violation) items))) items.
Proof.
  intro D. rewrite loop_body_unfold. cbv zeta. rewrite D. unfold nstep.
  apply on_unfrozen_fuse. intro c. reflexivity.
Qed.

Lemma loop_body_gdist k items free sfg :
  distribute k (free_space_of k items) items =
    map (on_unfrozen (fun c => set_target c (gtarget free sfg c))) items ->
  loop_body k items =
  map (gstep free sfg (viol_sum (map (on_unfrozen (fun c => fix_violation (set_target c (gtarget free sfg c)))) items))) items.
Proof.
  intro D. rewrite loop_body_unfold. cbv zeta. rewrite D.
  rewrite (on_unfrozen_fuse fix_violation (fun c => set_target c (gtarget free sfg c))) by (intro; reflexivity).
  unfold gstep. apply on_unfrozen_fuse. intro c. reflexivity.
Qed.

Lemma qsum_ge_term {A} (f : A -> Q) l x : (forall y, In y l -> 0 <= f y) -> In x l -> f x <= qsum f l.
Proof.
  induction l; simpl; intros Hn Hx; [tauto|]. destruct Hx as [<- | Hx].
  - pose proof (qsum_nonneg f l (fun y Hy => Hn y (or_intror Hy))). lra.
  - pose proof (IHl (fun y Hy => Hn y (or_intror Hy)) Hx). pose proof (Hn a (or_introl eq_refl)). lra.
Qed.

Lemma qsum_zero_terms {A} (f : A -> Q) l : (forall y, In y l -> 0 <= f y) -> qsum f l <= 0 -> forall x, In x l -> f x == 0.
Proof.
  intros Hn Hs x Hx. pose proof (qsum_ge_term f l x Hn Hx). pose proof (Hn x Hx). lra.
Qed.

Lemma frac_nonneg f g G : 0 <= f -> 0 <= g -> 0 < G -> 0 <= f * (g / G).
Proof.
  intros. apply Qmult_le_0_compat; [assumption|]. apply Qle_shift_div_l; [assumption|]. lra.
Qed.
Lemma frac_nonpos f g G : f <= 0 -> 0 <= g -> 0 < G -> f * (g / G) <= 0.
Proof.
  intros. assert (0 <= (- f) * (g / G)) by (apply frac_nonneg; lra). lra.
Qed.
Lemma frac_zero f g G : g == 0 -> f * (g / G) == 0.
Proof. intro E. unfold Qdiv. rewrite E. ring. Qed.

Record GCtx (k : LoopCtx XQ) (M gaps : Q) : Prop := {
  gc_grow : lc_growing k = true;
  gc_shrink : lc_shrinking k = false;
  gc_M : exists Mx, lc_inner_main k = Some Mx /\ finite Mx /\ val Mx == M;
  gc_gapf : finite (lc_total_gap k);
  gc_gap : val (lc_total_gap k) == gaps;
  gc_init : finite (lc_initial_free k);
  gc_uff : finite (lc_used_flex_factor k)
}.

Lemma growing_body k M gaps items : GCtx k M gaps -> InvG M gaps items -> forallb fi_frozen items = false ->
  PostG M gaps (loop_body k items) \/
  (InvG M gaps (loop_body k items) /\ (cnt (loop_body k items) < cnt items)%nat).
Proof.
  intros K I NF. destruct K as [Kg Ks [Mx [KM [FM VM]]] Kgf Kgv Kif Kuf].
  assert (Ffin : forall c, In c items -> item_fin c) by (intros c Hc; apply (ig_wf _ _ _ I c Hc)).
  assert (Fg : forall c, In c items -> finite (fi_grow c)) by (intros c Hc; specialize (Ffin c Hc); unfold item_fin in Ffin; tauto).
  destruct (sum_grow_fin items Fg) as [SG1 SG2].
  destruct (used_space_fin (lc_total_gap k) items Kgf Ffin) as [US1 US2].
  set (G := qsum (fun c => if fi_frozen c then 0 else qg c) items) in *.
  assert (Gnn : forall c, In c items -> 0 <= (if fi_frozen c then 0 else qg c)).
  { intros c Hc. destruct (fi_frozen c); [lra|]. apply (ig_wf _ _ _ I c Hc). }
  destruct (Qlt_le_dec 0 G) as [Gp | Gz].
  - (* some unfrozen item grows: the sum of factors is >= 1, free space is M - used > 0 and is distributed *)
    assert (G1 : 1 <= G).
    { destruct (qsum_pos_ex _ _ Gp) as [c [Hc Pc]]. pose proof (qsum_ge_term _ _ c Gnn Hc) as L. fold G in L.
      revert Pc L. cbv beta. destruct (fi_frozen c); intros Pc L; [lra|].
      destruct (ig_wf _ _ _ I c Hc) as [_ [_ [[Z|O] _]]]; lra. }
    set (used := used_space_of (lc_total_gap k) items) in *.
    assert (FS : free_space_of k items = sub Mx used).
    { unfold free_space_of. fold used. rewrite Kg, Ks, KM. cbn [andb maybe_sub_o unwrap_or].
      assert (E : ltb (sum_grow items) one = false) by (apply ltb_false; [assumption|exact fin_one|rewrite val_one, SG2; exact G1]).
      rewrite E. reflexivity. }
    destruct (sub_fin Mx used FM US1) as [FF FV].
    set (free := sub Mx used) in *. set (sfg := sum_grow items) in *.
    assert (Ule : qsum (fun c => if fi_frozen c then qot c else qb c + qm c) items <= qsum LoT items).
    { apply qsum_le. intros c Hc. unfold LoT. destruct (fi_frozen c) eqn:E; [lra|].
      destruct (ig_unf _ _ _ I c Hc E). lra. }
    assert (Fpos : 0 < val free). { rewrite FV, US2, VM, Kgv. pose proof (ig_lo _ _ _ I). lra. }
    assert (SGp : 0 < val sfg) by (rewrite SG2; lra).
    assert (D : distribute k (free_space_of k items) items =
                map (on_unfrozen (fun c => set_target c (gtarget free sfg c))) items).
    { unfold distribute. rewrite FS. fold sfg.
      assert (E1 : is_normal free = true) by (apply is_normal_fin; [assumption|lra]).
      assert (E2 : gtb sfg zero = true) by (unfold gtb; apply ltb_true; [exact fin_zero|assumption|rewrite val_zero; assumption]).
      rewrite E1, Kg, E2. reflexivity. }
    rewrite (loop_body_gdist k items free sfg D).
    set (hx := fun c : Item => fix_violation (set_target c (gtarget free sfg c))).
    set (Vx := viol_sum (map (on_unfrozen hx) items)).
    (* the fresh targets *)
    assert (TX : forall c, In c items -> finite (gtarget free sfg c) /\
                  val (gtarget free sfg c) = qb c + val free * (qg c / val sfg)).
    { intros c Hc. unfold gtarget. specialize (Ffin c Hc). unfold item_fin in Ffin.
      destruct (div_fin (fi_grow c) sfg) as [D1 D2]; [tauto|assumption|lra|].
      destruct (mul_fin free _ FF D1) as [M1 M2].
      destruct (add_fin (fi_basis c) (mul free (div (fi_grow c) sfg))) as [A1 A2]; [tauto|assumption|].
      split; [assumption|]. rewrite A2, M2, D2. reflexivity. }
    set (T := fun c : Item => qb c + val free * (qg c / val sfg)).
    destruct (viol_sum_map hx items) as [VF VV].
    { intro c. reflexivity. }
    { intros c Hc E. destruct (TX c Hc) as [X1 X2].
      destruct (fix_violation_fields c _ (Ffin c Hc) X1) as [_ [F1 _]]. unfold hx. unfold item_fin in F1. tauto. }
    fold Vx in VF, VV.
    assert (HV : val Vx == qsum (fun c => if fi_frozen c then 0 else qcl c (T c) - T c) items).
    { rewrite VV. apply qsum_ext. intros c Hc. destruct (fi_frozen c); [reflexivity|].
      destruct (TX c Hc) as [X1 X2].
      destruct (fix_violation_fields c _ (Ffin c Hc) X1) as [_ [_ [_ [_ [V1 _]]]]]. unfold hx. rewrite V1, X2. reflexivity. }
    assert (HT1 : forall c, In c items -> fi_frozen c = false -> qb c <= T c).
    { intros c Hc E. unfold T. destruct (ig_wf _ _ _ I c Hc) as [_ [Gc _]].
      pose proof (frac_nonneg (val free) (qg c) (val sfg)). lra. }
    assert (HT2 : forall c, In c items -> fi_frozen c = false -> qg c == 0 -> T c == qb c).
    { intros c Hc E Z. unfold T. rewrite (frac_zero _ _ _ Z). lra. }
    assert (HS : gaps + qsum (fun c => if fi_frozen c then qot c else T c + qm c) items == M).
    { assert (E1 : qsum (fun c => if fi_frozen c then qot c else T c + qm c) items ==
                   qsum (fun c => if fi_frozen c then qot c else qb c + qm c) items +
                   (val free / val sfg) * qsum (fun c => if fi_frozen c then 0 else qg c) items).
      { rewrite <- qsum_scale, <- qsum_add. apply qsum_ext. intros c _. unfold T. destruct (fi_frozen c); [ring|].
        field. lra. }
      rewrite E1. fold G. rewrite <- SG2.
      assert (E2 : val free / val sfg * val sfg == val free) by (field; lra).
      rewrite E2, FV, US2, VM, Kgv. ring. }
    assert (Hfz : forall c, In c items -> fi_frozen c = true -> gstep free sfg Vx c = c).
    { intros c _ E. unfold gstep, on_unfrozen. rewrite E. reflexivity. }
    assert (Hun : forall c, In c items -> fi_frozen c = false ->
      static_eq c (gstep free sfg Vx c) /\ item_fin (gstep free sfg Vx c) /\ qt (gstep free sfg Vx c) == qcl c (T c) /\
      qot (gstep free sfg Vx c) == qcl c (T c) + qm c /\
      (0 < val Vx -> (fi_frozen (gstep free sfg Vx c) = true <-> 0 < qcl c (T c) - T c)) /\
      (val Vx < 0 -> (fi_frozen (gstep free sfg Vx c) = true <-> qcl c (T c) - T c < 0)) /\
      (val Vx == 0 -> fi_frozen (gstep free sfg Vx c) = true)).
    { intros c Hc E. destruct (TX c Hc) as [X1 X2].
      destruct (step_fields Vx _ c VF X1 (Ffin c Hc)) as [S [F1 [T1 [O1 [P1 [P2 P3]]]]]].
      unfold gstep, on_unfrozen. rewrite E. rewrite X2 in *. fold (T c) in *.
      split; [assumption|]. split; [assumption|]. rewrite T1, O1. repeat split; try reflexivity; try assumption.
      - apply P1; assumption. - apply P1; assumption. - apply P2; assumption. - apply P2; assumption. }
    destruct (Qlt_le_dec 0 (val Vx)) as [Vp | Vle].
    + right. exact (g_pos M gaps (val Vx) items _ T I HT1 HT2 HS HV Hfz Hun Vp).
    + destruct (Qlt_le_dec (val Vx) 0) as [Vn | Vge].
      * right. exact (g_neg M gaps (val Vx) items _ T I HT1 HT2 HS HV Hfz Hun Vn).
      * left. apply (g_exact M gaps (val Vx) items _ T I HS HV Hfz Hun). lra.
  - (* every unfrozen item has grow factor 0: nothing is distributed, the stale targets are the hypothetical sizes *)
    assert (Z : forall c, In c items -> fi_frozen c = false -> qg c == 0).
    { intros c Hc E. pose proof (qsum_zero_terms _ _ Gnn Gz c Hc) as Zc. cbv beta in Zc. rewrite E in Zc. exact Zc. }
    assert (D : distribute k (free_space_of k items) items = items).
    { unfold distribute.
      assert (E2 : gtb (sum_grow items) zero = false).
      { unfold gtb. apply ltb_false; [exact fin_zero|assumption|]. rewrite val_zero, SG2. exact Gz. }
      rewrite E2, Ks, andb_false_r. cbn [andb]. destruct (is_normal _); reflexivity. }
    rewrite (loop_body_nodist k items D).
    set (Vx := viol_sum (map (on_unfrozen fix_violation) items)).
    assert (FT : forall c, In c items -> finite (fi_target c)) by (intros c Hc; specialize (Ffin c Hc); unfold item_fin in Ffin; tauto).
    assert (ST : forall c, In c items -> fi_frozen c = false -> qcl c (qt c) == qh c).
    { intros c Hc E. destruct (ig_unf _ _ _ I c Hc E) as [_ S]. destruct (ig_wf _ _ _ I c Hc) as [_ [_ [_ P]]].
      unfold qcl in *. rewrite (qclamp_ext _ _ _ _ (S (Z c Hc E))). rewrite P. apply qclamp_idem. }
    destruct (viol_sum_map fix_violation items) as [VF VV].
    { intro c. reflexivity. }
    { intros c Hc E. rewrite <- fix_violation_stale.
      destruct (fix_violation_fields c _ (Ffin c Hc) (FT c Hc)) as [_ [F1 _]]. unfold item_fin in F1. tauto. }
    fold Vx in VF, VV.
    assert (V0 : val Vx == 0).
    { rewrite VV. apply qsum_zero. intros c Hc. destruct (fi_frozen c) eqn:E; [reflexivity|].
      rewrite <- fix_violation_stale.
      destruct (fix_violation_fields c _ (Ffin c Hc) (FT c Hc)) as [_ [_ [_ [_ [V1 _]]]]]. rewrite V1.
      fold (qt c). destruct (ig_unf _ _ _ I c Hc E) as [_ S]. rewrite (ST c Hc E), (S (Z c Hc E)). ring. }
    assert (NS : forall c, In c items -> fi_frozen c = false ->
       static_eq c (nstep Vx c) /\ item_fin (nstep Vx c) /\ fi_frozen (nstep Vx c) = true /\
       qot (nstep Vx c) == qt (nstep Vx c) + qm c).
    { intros c Hc E. unfold nstep, on_unfrozen. rewrite E. rewrite <- fix_violation_stale.
      destruct (step_fields Vx _ c VF (FT c Hc) (Ffin c Hc)) as [S [F1 [T1 [O1 [_ [_ P3]]]]]].
      split; [assumption|]. split; [assumption|]. split; [apply P3; assumption|]. rewrite T1, O1. reflexivity. }
    assert (NF' : forall c, In c items -> fi_frozen c = true -> nstep Vx c = c).
    { intros c _ E. unfold nstep, on_unfrozen. rewrite E. reflexivity. }
    left. constructor.
    + intros c' Hc'. apply in_map_iff in Hc'. destruct Hc' as [c [<- Hc]]. destruct (fi_frozen c) eqn:E.
      * rewrite (NF' c Hc E). assumption.
      * apply (NS c Hc E).
    + intros c' Hc'. apply in_map_iff in Hc'. destruct Hc' as [c [<- Hc]]. destruct (fi_frozen c) eqn:E.
      * rewrite (NF' c Hc E). apply Ffin; assumption.
      * apply (NS c Hc E).
    + intros c' Hc'. apply in_map_iff in Hc'. destruct Hc' as [c [<- Hc]]. destruct (fi_frozen c) eqn:E.
      * rewrite (NF' c Hc E). apply (ig_fro _ _ _ I c Hc E).
      * destruct (NS c Hc E) as [S [_ [_ O]]]. destruct (static_q _ _ S) as [_ [_ [_ [_ [_ [_ [_ [_ Em]]]]]]]].
        rewrite Em. exact O.
    + right. intros c' Hc' Hg'. apply in_map_iff in Hc'. destruct Hc' as [c [<- Hc]]. destruct (fi_frozen c) eqn:E.
      * rewrite (NF' c Hc E) in *. destruct (ig_up _ _ _ I) as [A | [O | U]].
        -- apply A; assumption.
        -- exfalso. apply existsb_exists in O. destruct O as [d [Hd O]]. unfold gopen in O.
           apply andb_true_iff in O. destruct O as [O _]. apply andb_true_iff in O. destruct O as [O1 O2].
           apply negb_true_iff in O1. apply negb_true_iff in O2. pose proof (Z d Hd O1) as Zd.
           apply Qeq_bool_iff in Zd. congruence.
        -- exfalso. pose proof (ig_lo _ _ _ I) as L.
           assert (EQ : qsum UpT items == qsum LoT items).
           { apply qsum_ext. intros d Hd. unfold UpT, LoT. destruct (fi_frozen d) eqn:Ed; [reflexivity|].
             pose proof (Z d Hd Ed) as Zd. apply Qeq_bool_iff in Zd. rewrite Zd. reflexivity. }
           lra.
      * exfalso. destruct (NS c Hc E) as [S _]. destruct (static_q _ _ S) as [_ [_ [_ [_ [_ [_ [Eg _]]]]]]].
        rewrite Eg in Hg'. apply Hg'. apply Z; assumption.
Qed.

(* ---------- static fields through the loop *)
Lemma Forall2_static_refl (l : list Item) : Forall2 static_eq l l.
Proof. induction l; constructor; auto using static_refl. Qed.
Lemma Forall2_static_trans (a b c : list Item) : Forall2 static_eq a b -> Forall2 static_eq b c -> Forall2 static_eq a c.
Proof.
  intro H. revert c. induction H; intros c0 H2; inversion H2; subst; constructor.
  - eapply static_trans; eassumption.
  - apply IHForall2. assumption.
Qed.
Lemma Forall2_static_map (f : Item -> Item) l : (forall c, static_eq c (f c)) -> Forall2 static_eq l (map f l).
Proof. intro H. induction l; simpl; constructor; auto. Qed.
Lemma on_unfrozen_static f : (forall c, static_eq c (f c)) -> forall c, static_eq c (on_unfrozen f c).
Proof. intros H c. unfold on_unfrozen. destruct (fi_frozen c); [apply static_refl | apply H]. Qed.

Lemma loop_body_static k items : Forall2 static_eq items (loop_body k items).
Proof.
  rewrite loop_body_unfold. cbv zeta.
  eapply Forall2_static_trans; [|apply Forall2_static_map; apply on_unfrozen_static].
  - eapply Forall2_static_trans; [|apply Forall2_static_map; apply on_unfrozen_static].
    + unfold distribute.
      repeat match goal with |- context [if ?b then _ else _] => destruct b end;
        try apply Forall2_static_refl; apply Forall2_static_map; apply on_unfrozen_static; intro c; repeat split.
    + intro c. repeat split.
  - intro c. unfold freeze_by_violation. repeat match goal with |- context [if ?b then _ else _] => destruct b end; repeat split.
Qed.

Lemma cnt_pos (l : list Item) : forallb fi_frozen l = false -> (0 < cnt l)%nat.
Proof.
  unfold cnt. induction l; simpl; [discriminate|]. intro H. apply andb_false_iff in H.
  unfold unfrozen at 1. destruct (fi_frozen a); simpl; [|lia]. destruct H; [discriminate|auto].
Qed.

Lemma flex_loop_done fuel k (items : list Item) : forallb fi_frozen items = true -> flex_loop (S fuel) k items = Some items.
Proof. intro H. simpl. rewrite H. reflexivity. Qed.

Lemma flex_loop_growing k M gaps : GCtx k M gaps -> forall fuel items, InvG M gaps items -> (cnt items < fuel)%nat ->
  exists res, flex_loop fuel k items = Some res /\ PostG M gaps res /\ Forall2 static_eq items res.
Proof.
  intros K fuel. induction fuel as [|f IH]; intros items I Hc; [lia|].
  destruct (forallb fi_frozen items) eqn:E.
  - exists items. split; [apply flex_loop_done; assumption|]. split; [|apply Forall2_static_refl].
    apply invG_all_frozen; [assumption|]. apply forallb_frozen_true. assumption.
  - pose proof (cnt_pos _ E) as Cp. simpl. rewrite E.
    destruct (growing_body k M gaps items K I E) as [P | [I' Hlt]].
    + destruct f as [|f']; [lia|]. exists (loop_body k items).
      split; [|split; [assumption | apply loop_body_static]].
      apply flex_loop_done. apply forallb_forall. intros c Hin. apply (pg_frozen _ _ _ P c Hin).
    + destruct (IH (loop_body k items) I') as [res [R1 [R2 R3]]]; [lia|].
      exists res. split; [assumption|]. split; [assumption|].
      exact (Forall2_static_trans _ _ _ (loop_body_static k items) R3).
Qed.

(* ================= shrinking ================= *)
Definition qw (c : Item) : Q := qib c * qs c.     (* scaled flex shrink factor *)
Definition sprem (c : Item) : Prop :=
  0 <= qs c /\ (qs c == 0 \/ 1 <= qs c) /\ 0 <= qib c /\ qh c == qcl c (qb c).
Definition DnT (c : Item) : Q :=
  if fi_frozen c then qot c else if Qeq_bool (qw c) 0 then qh c + qm c else effmin (qmin c) + qm c.
Definition at_min (c : Item) : Prop := qt c == effmin (qmin c).

Record InvS (M gaps : Q) (items : list Item) : Prop := {
  is_wf : forall c, In c items -> item_fin c /\ sprem c;
  is_unf : forall c, In c items -> fi_frozen c = false -> qh c <= qb c /\ (qw c == 0 -> qt c == qh c);
  is_fro : forall c, In c items -> fi_frozen c = true -> qot c == qt c + qm c;
  is_hi : M < gaps + qsum LoT items;
  is_dn : (forall c, In c items -> fi_frozen c = true -> ~ qw c == 0 -> at_min c) \/ gaps + qsum DnT items < M
}.

Record PostS (M gaps : Q) (res : list Item) : Prop := {
  ps_frozen : forall c, In c res -> fi_frozen c = true;
  ps_fin : forall c, In c res -> item_fin c;
  ps_outer : forall c, In c res -> qot c == qt c + qm c;
  ps_law : gaps + qsum qot res == M \/ (forall c, In c res -> ~ qw c == 0 -> at_min c)
}.

Lemma sprem_static c c' : static_eq c c' -> sprem c -> sprem c'.
Proof.
  intros S P. destruct (static_q c c' S) as [E1 [E2 [E3 [E4 [E5 [E6 [E7 [E8 E9]]]]]]]].
  unfold sprem, qcl in *. rewrite E1, E2, E3, E5, E6, E8. exact P.
Qed.
Lemma qw_static c c' : static_eq c c' -> qw c' = qw c.
Proof. intro S. destruct (static_q c c' S) as [_ [E2 [_ [_ [_ [_ [_ [E8 _]]]]]]]]. unfold qw. rewrite E2, E8. reflexivity. Qed.

Lemma invS_all_frozen M gaps items : InvS M gaps items -> (forall c, In c items -> fi_frozen c = true) ->
  PostS M gaps items.
Proof.
  intros I Hf. constructor; auto.
  - intros c Hc. apply (is_wf _ _ _ I c Hc).
  - intros c Hc. apply (is_fro _ _ _ I c Hc (Hf c Hc)).
  - right. destruct (is_dn _ _ _ I) as [L | U].
    + intros c Hc. apply L; auto.
    + exfalso. pose proof (is_hi _ _ _ I) as L.
      assert (E : qsum DnT items == qsum LoT items).
      { apply qsum_ext. intros c Hc. unfold DnT, LoT. rewrite (Hf c Hc). reflexivity. }
      lra.
Qed.

Section ShrinkStep.
  Variables (M gaps V : Q) (items : list Item) (step : Item -> Item) (T : Item -> Q).
  Hypothesis Inv : InvS M gaps items.
  Hypothesis HT1 : forall c, In c items -> fi_frozen c = false -> T c <= qb c.
  Hypothesis HT2 : forall c, In c items -> fi_frozen c = false -> qw c == 0 -> T c == qb c.
  Hypothesis HS : gaps + qsum (fun c => if fi_frozen c then qot c else T c + qm c) items == M.
  Hypothesis HV : V == qsum (fun c => if fi_frozen c then 0 else qcl c (T c) - T c) items.
  Hypothesis Hfz : forall c, In c items -> fi_frozen c = true -> step c = c.
  Hypothesis Hun : forall c, In c items -> fi_frozen c = false ->
    static_eq c (step c) /\ item_fin (step c) /\ qt (step c) == qcl c (T c) /\ qot (step c) == qcl c (T c) + qm c /\
    (0 < V -> (fi_frozen (step c) = true <-> 0 < qcl c (T c) - T c)) /\
    (V < 0 -> (fi_frozen (step c) = true <-> qcl c (T c) - T c < 0)) /\
    (V == 0 -> fi_frozen (step c) = true).

  Let MidT (c : Item) : Q := if fi_frozen c then qot c else qcl c (T c) + qm c.

  Lemma s_mid : gaps + qsum MidT items == M + V.
  Proof.
    assert (E : qsum MidT items ==
                qsum (fun c => if fi_frozen c then qot c else T c + qm c) items +
                qsum (fun c => if fi_frozen c then 0 else qcl c (T c) - T c) items).
    { rewrite <- qsum_add. apply qsum_ext. intros c _. unfold MidT. destruct (fi_frozen c); lra. }
    rewrite E, HV. lra.
  Qed.

  Lemma s_unf_facts c : In c items -> fi_frozen c = false ->
    qh c == qcl c (qb c) /\ qh c <= qb c /\ qcl c (T c) <= qh c /\ (qw c == 0 -> qcl c (T c) == qh c).
  Proof.
    intros Hc Hf. destruct (is_wf _ _ _ Inv c Hc) as [_ [_ [_ [_ P]]]]. destruct (is_unf _ _ _ Inv c Hc Hf) as [B _].
    split; [assumption|]. split; [assumption|]. split.
    - rewrite P. apply qclamp_mono. apply HT1; assumption.
    - intro G. rewrite P. apply qclamp_ext. apply HT2; assumption.
  Qed.

  Lemma s_wf' : forall c', In c' (map step items) -> item_fin c' /\ sprem c'.
  Proof.
    intros c' Hc'. apply in_map_iff in Hc'. destruct Hc' as [c [<- Hc]].
    destruct (is_wf _ _ _ Inv c Hc) as [F P].
    destruct (fi_frozen c) eqn:E.
    - rewrite (Hfz c Hc E). auto.
    - destruct (Hun c Hc E) as [S [F' _]]. split; [assumption|]. eapply sprem_static; eassumption.
  Qed.

  Lemma s_fro' : forall c', In c' (map step items) -> fi_frozen c' = true -> qot c' == qt c' + qm c'.
  Proof.
    intros c' Hc' Hf'. apply in_map_iff in Hc'. destruct Hc' as [c [<- Hc]].
    destruct (fi_frozen c) eqn:E.
    - rewrite (Hfz c Hc E) in *. apply (is_fro _ _ _ Inv c Hc E).
    - destruct (Hun c Hc E) as [S [_ [T1 [O1 _]]]].
      destruct (static_q _ _ S) as [_ [_ [_ [_ [_ [_ [_ [_ Em]]]]]]]]. rewrite O1, T1, Em. reflexivity.
  Qed.

  Lemma s_unf' : forall c', In c' (map step items) -> fi_frozen c' = false ->
    qh c' <= qb c' /\ (qw c' == 0 -> qt c' == qh c').
  Proof.
    intros c' Hc' Hf'. apply in_map_iff in Hc'. destruct Hc' as [c [<- Hc]].
    destruct (fi_frozen c) eqn:E.
    - rewrite (Hfz c Hc E) in Hf'. congruence.
    - destruct (Hun c Hc E) as [S [_ [T1 _]]].
      destruct (static_q _ _ S) as [Eb [_ [Eh _]]].
      destruct (s_unf_facts c Hc E) as [_ [B [_ Z]]].
      rewrite Eb, Eh, (qw_static _ _ S). split; [assumption|]. intro G. rewrite T1. apply Z. assumption.
  Qed.

  Lemma s_exact : V == 0 -> PostS M gaps (map step items).
  Proof.
    intro V0.
    assert (AF : forall c', In c' (map step items) -> fi_frozen c' = true).
    { intros c' Hc'. apply in_map_iff in Hc'. destruct Hc' as [c [<- Hc]]. destruct (fi_frozen c) eqn:E.
      - rewrite (Hfz c Hc E). assumption.
      - apply (Hun c Hc E). assumption. }
    constructor; auto.
    - intros c Hc. apply s_wf'. assumption.
    - intros c Hc. apply s_fro'; auto.
    - left. rewrite qsum_map.
      assert (E : qsum (fun x => qot (step x)) items == qsum MidT items).
      { apply qsum_ext. intros c Hc. unfold MidT. destruct (fi_frozen c) eqn:E.
        - rewrite (Hfz c Hc E). reflexivity.
        - apply (Hun c Hc E). }
      rewrite E. pose proof s_mid. lra.
  Qed.

  (* total violation positive: min violators freeze (at their floor) *)
  Lemma s_pos : 0 < V -> InvS M gaps (map step items) /\ (cnt (map step items) < cnt items)%nat.
  Proof.
    intro Vp. split.
    - constructor.
      + exact s_wf'.
      + exact s_unf'.
      + exact s_fro'.
      + rewrite qsum_map.
        assert (L : qsum MidT items <= qsum (fun x => LoT (step x)) items).
        { apply qsum_le. intros c Hc. unfold MidT. destruct (fi_frozen c) eqn:E.
          - rewrite (Hfz c Hc E). unfold LoT. rewrite E. lra.
          - destruct (Hun c Hc E) as [S [_ [T1 [O1 _]]]].
            destruct (static_q _ _ S) as [_ [_ [Eh [_ [_ [_ [_ [_ Em]]]]]]]].
            destruct (s_unf_facts c Hc E) as [_ [_ [K _]]].
            unfold LoT. destruct (fi_frozen (step c)); [rewrite O1; lra|]. rewrite Eh, Em. lra. }
        pose proof s_mid. lra.
      + destruct (is_dn _ _ _ Inv) as [A | U].
        * left. intros c' Hc' Hf' Hg'. apply in_map_iff in Hc'. destruct Hc' as [c [<- Hc]].
          destruct (fi_frozen c) eqn:E.
          -- rewrite (Hfz c Hc E) in *. apply A; assumption.
          -- destruct (Hun c Hc E) as [S [_ [T1 [_ [P _]]]]]. specialize (P Vp).
             assert (L : 0 < qcl c (T c) - T c) by (apply P; assumption).
             destruct (static_q _ _ S) as [_ [_ [_ [_ [Emn _]]]]].
             unfold at_min. rewrite T1, Emn. unfold qcl in *. apply qclamp_gt_min. lra.
        * right. rewrite qsum_map.
          assert (E : qsum (fun x => DnT (step x)) items == qsum DnT items).
          { apply qsum_ext. intros c Hc. unfold DnT at 2. destruct (fi_frozen c) eqn:E.
            - rewrite (Hfz c Hc E). unfold DnT. rewrite E. reflexivity.
            - destruct (Hun c Hc E) as [S [_ [T1 [O1 [P _]]]]]. specialize (P Vp).
              destruct (static_q _ _ S) as [_ [_ [Eh [_ [Emn [_ [_ [_ Em]]]]]]]].
              destruct (s_unf_facts c Hc E) as [Hh [B [K Z]]].
              unfold DnT. rewrite (qw_static _ _ S). destruct (fi_frozen (step c)) eqn:E'.
              + assert (L : 0 < qcl c (T c) - T c) by (apply P; reflexivity).
                destruct (Qeq_bool (qw c) 0) eqn:G0.
                * apply Qeq_bool_iff in G0. exfalso. pose proof (HT2 c Hc E G0). pose proof (Z G0). lra.
                * rewrite O1. unfold qcl in *. rewrite (qclamp_gt_min (qmin c) (qmaxo c) (T c)) by lra. reflexivity.
              + rewrite Eh, Em, Emn. reflexivity. }
          rewrite E. assumption.
    - apply cnt_map_lt.
      + intros c Hc E. rewrite (Hfz c Hc E). assumption.
      + assert (P : 0 < qsum (fun c => if fi_frozen c then 0 else qcl c (T c) - T c) items) by (rewrite <- HV; assumption).
        apply qsum_pos_ex in P. destruct P as [c [Hc P]]. exists c. split; [assumption|].
        destruct (fi_frozen c) eqn:E; [lra|]. split; [reflexivity|].
        destruct (Hun c Hc E) as [_ [_ [_ [_ [Pp _]]]]]. apply (Pp Vp). exact P.
  Qed.

  (* total violation negative: max violators freeze; they sit at their hypothetical size *)
  Lemma s_neg : V < 0 -> InvS M gaps (map step items) /\ (cnt (map step items) < cnt items)%nat.
  Proof.
    intro Vn. split.
    - constructor.
      + exact s_wf'.
      + exact s_unf'.
      + exact s_fro'.
      + rewrite qsum_map.
        assert (E : qsum (fun x => LoT (step x)) items == qsum LoT items).
        { apply qsum_ext. intros c Hc. unfold LoT at 2. destruct (fi_frozen c) eqn:E.
          - rewrite (Hfz c Hc E). unfold LoT. rewrite E. reflexivity.
          - destruct (Hun c Hc E) as [S [_ [T1 [O1 [_ [P _]]]]]]. specialize (P Vn).
            destruct (static_q _ _ S) as [_ [_ [Eh [_ [_ [_ [_ [_ Em]]]]]]]].
            destruct (s_unf_facts c Hc E) as [Hh [B _]].
            unfold LoT. destruct (fi_frozen (step c)) eqn:E'.
            + rewrite O1. assert (L : qcl c (T c) - T c < 0) by (apply P; reflexivity).
              assert (K : qcl c (qb c) == qcl c (T c)).
              { unfold qcl in *. apply qclamp_max_stable; [apply HT1; assumption | lra]. }
              rewrite Hh, K. reflexivity.
            + rewrite Eh, Em. reflexivity. }
        rewrite E. apply (is_hi _ _ _ Inv).
      + right. rewrite qsum_map.
        assert (L : qsum (fun x => DnT (step x)) items <= qsum MidT items).
        { apply qsum_le. intros c Hc. unfold MidT. destruct (fi_frozen c) eqn:E.
          - rewrite (Hfz c Hc E). unfold DnT. rewrite E. lra.
          - destruct (Hun c Hc E) as [S [_ [T1 [O1 _]]]].
            destruct (static_q _ _ S) as [_ [_ [Eh [_ [Emn [_ [_ [_ Em]]]]]]]].
            destruct (s_unf_facts c Hc E) as [Hh [B [_ Z]]].
            unfold DnT. rewrite (qw_static _ _ S). destruct (fi_frozen (step c)) eqn:E'; [rewrite O1; lra|].
            rewrite Eh, Em, Emn. destruct (Qeq_bool (qw c) 0) eqn:G0.
            + apply Qeq_bool_iff in G0. rewrite (Z G0). lra.
            + pose proof (qclamp_ge_effmin (qmin c) (qmaxo c) (T c)). unfold qcl. lra. }
        pose proof s_mid. lra.
    - apply cnt_map_lt.
      + intros c Hc E. rewrite (Hfz c Hc E). assumption.
      + assert (P : qsum (fun c => if fi_frozen c then 0 else qcl c (T c) - T c) items < 0) by (rewrite <- HV; assumption).
        apply qsum_neg_ex in P. destruct P as [c [Hc P]]. exists c. split; [assumption|].
        destruct (fi_frozen c) eqn:E; [lra|]. split; [reflexivity|].
        destruct (Hun c Hc E) as [_ [_ [_ [_ [_ [Pn _]]]]]]. apply (Pn Vn). exact P.
  Qed.
End ShrinkStep.

Definition starget (free sss : XQ) (c : Item) : XQ :=
  add (fi_basis c) (mul free (div (mul (fi_inner_basis c) (fi_shrink c)) sss)).
Definition sstep (free sss V : XQ) : Item -> Item :=
  on_unfrozen (fun c => freeze_by_violation V (fix_violation (set_target c (starget free sss c)))).

Lemma loop_body_sdist k items free sss :
  distribute k (free_space_of k items) items =
    map (on_unfrozen (fun c => set_target c (starget free sss c))) items ->
  loop_body k items =
  map (sstep free sss (viol_sum (map (on_unfrozen (fun c => fix_violation (set_target c (starget free sss c)))) items))) items.
Proof.
  intro D. rewrite loop_body_unfold. cbv zeta. rewrite D.
  rewrite (on_unfrozen_fuse fix_violation (fun c => set_target c (starget free sss c))) by (intro; reflexivity).
  unfold sstep. apply on_unfrozen_fuse. intro c. reflexivity.
Qed.

Lemma sum_scaled_fin l : (forall c, In c l -> item_fin c) ->
  finite (sum_scaled_shrink l) /\ val (sum_scaled_shrink l) == qsum (fun c => if fi_frozen c then 0 else qw c) l.
Proof.
  intro Hf. unfold sum_scaled_shrink.
  destruct (fsum_fin (fun c : Item => mul (fi_inner_basis c) (fi_shrink c)) (filter unfrozen l)) as [A1 A2].
  { intros c Hc. apply filter_In in Hc. destruct Hc as [Hc _]. specialize (Hf c Hc). unfold item_fin in Hf.
    apply mul_fin; tauto. }
  split; [assumption|]. rewrite A2, qsum_filter. apply qsum_ext. intros c Hc. specialize (Hf c Hc). unfold item_fin in Hf.
  unfold unfrozen. destruct (fi_frozen c); [reflexivity|]. cbn [negb].
  destruct (mul_fin (fi_inner_basis c) (fi_shrink c)) as [_ E]; [tauto|tauto|]. rewrite E. reflexivity.
Qed.

Record SCtx (k : LoopCtx XQ) (M gaps : Q) : Prop := {
  sc_grow : lc_growing k = false;
  sc_shrink : lc_shrinking k = true;
  sc_M : exists Mx, lc_inner_main k = Some Mx /\ finite Mx /\ val Mx == M;
  sc_gapf : finite (lc_total_gap k);
  sc_gap : val (lc_total_gap k) == gaps;
  sc_init : finite (lc_initial_free k);
  sc_uff : finite (lc_used_flex_factor k)
}.

(* no distribution happens and every unfrozen item has a zero scaled factor: everything freezes where it is *)
Lemma shrink_nodist k M gaps items : InvS M gaps items ->
  distribute k (free_space_of k items) items = items ->
  (forall c, In c items -> fi_frozen c = false -> qw c == 0) ->
  PostS M gaps (loop_body k items).
Proof.
  intros I D Z.
  assert (Ffin : forall c, In c items -> item_fin c) by (intros c Hc; apply (is_wf _ _ _ I c Hc)).
  rewrite (loop_body_nodist k items D).
  set (Vx := viol_sum (map (on_unfrozen fix_violation) items)).
  assert (FT : forall c, In c items -> finite (fi_target c)) by (intros c Hc; specialize (Ffin c Hc); unfold item_fin in Ffin; tauto).
  assert (ST : forall c, In c items -> fi_frozen c = false -> qcl c (qt c) == qh c).
  { intros c Hc E. destruct (is_unf _ _ _ I c Hc E) as [_ S]. destruct (is_wf _ _ _ I c Hc) as [_ [_ [_ [_ P]]]].
    unfold qcl in *. rewrite (qclamp_ext _ _ _ _ (S (Z c Hc E))). rewrite P. apply qclamp_idem. }
  destruct (viol_sum_map fix_violation items) as [VF VV].
  { intro c. reflexivity. }
  { intros c Hc E. rewrite <- fix_violation_stale.
    destruct (fix_violation_fields c _ (Ffin c Hc) (FT c Hc)) as [_ [F1 _]]. unfold item_fin in F1. tauto. }
  fold Vx in VF, VV.
  assert (V0 : val Vx == 0).
  { rewrite VV. apply qsum_zero. intros c Hc. destruct (fi_frozen c) eqn:E; [reflexivity|].
    rewrite <- fix_violation_stale.
    destruct (fix_violation_fields c _ (Ffin c Hc) (FT c Hc)) as [_ [_ [_ [_ [V1 _]]]]]. rewrite V1.
    fold (qt c). destruct (is_unf _ _ _ I c Hc E) as [_ S]. rewrite (ST c Hc E), (S (Z c Hc E)). ring. }
  assert (NS : forall c, In c items -> fi_frozen c = false ->
     static_eq c (nstep Vx c) /\ item_fin (nstep Vx c) /\ fi_frozen (nstep Vx c) = true /\
     qot (nstep Vx c) == qt (nstep Vx c) + qm c).
  { intros c Hc E. unfold nstep, on_unfrozen. rewrite E. rewrite <- fix_violation_stale.
    destruct (step_fields Vx _ c VF (FT c Hc) (Ffin c Hc)) as [S [F1 [T1 [O1 [_ [_ P3]]]]]].
    split; [assumption|]. split; [assumption|]. split; [apply P3; assumption|]. rewrite T1, O1. reflexivity. }
  assert (NF' : forall c, In c items -> fi_frozen c = true -> nstep Vx c = c).
  { intros c _ E. unfold nstep, on_unfrozen. rewrite E. reflexivity. }
  constructor.
  + intros c' Hc'. apply in_map_iff in Hc'. destruct Hc' as [c [<- Hc]]. destruct (fi_frozen c) eqn:E.
    * rewrite (NF' c Hc E). assumption.
    * apply (NS c Hc E).
  + intros c' Hc'. apply in_map_iff in Hc'. destruct Hc' as [c [<- Hc]]. destruct (fi_frozen c) eqn:E.
    * rewrite (NF' c Hc E). apply Ffin; assumption.
    * apply (NS c Hc E).
  + intros c' Hc'. apply in_map_iff in Hc'. destruct Hc' as [c [<- Hc]]. destruct (fi_frozen c) eqn:E.
    * rewrite (NF' c Hc E). apply (is_fro _ _ _ I c Hc E).
    * destruct (NS c Hc E) as [S [_ [_ O]]]. destruct (static_q _ _ S) as [_ [_ [_ [_ [_ [_ [_ [_ Em]]]]]]]].
      rewrite Em. exact O.
  + right. intros c' Hc' Hg'. apply in_map_iff in Hc'. destruct Hc' as [c [<- Hc]]. destruct (fi_frozen c) eqn:E.
    * rewrite (NF' c Hc E) in *. destruct (is_dn _ _ _ I) as [A | U].
      -- apply A; assumption.
      -- exfalso. pose proof (is_hi _ _ _ I) as L.
         assert (EQ : qsum DnT items == qsum LoT items).
         { apply qsum_ext. intros d Hd. unfold DnT, LoT. destruct (fi_frozen d) eqn:Ed; [reflexivity|].
           pose proof (Z d Hd Ed) as Zd. apply Qeq_bool_iff in Zd. rewrite Zd. reflexivity. }
         lra.
    * exfalso. destruct (NS c Hc E) as [S _]. rewrite (qw_static _ _ S) in Hg'. apply Hg'. apply Z; assumption.
Qed.

Lemma shrinking_body k M gaps items : SCtx k M gaps -> InvS M gaps items -> forallb fi_frozen items = false ->
  PostS M gaps (loop_body k items) \/
  (InvS M gaps (loop_body k items) /\ (cnt (loop_body k items) < cnt items)%nat).
Proof.
  intros K I NF. destruct K as [Kg Ks [Mx [KM [FM VM]]] Kgf Kgv Kif Kuf].
  assert (Ffin : forall c, In c items -> item_fin c) by (intros c Hc; apply (is_wf _ _ _ I c Hc)).
  assert (Fs : forall c, In c items -> finite (fi_shrink c)) by (intros c Hc; specialize (Ffin c Hc); unfold item_fin in Ffin; tauto).
  destruct (sum_shrink_fin items Fs) as [SS1 SS2].
  destruct (sum_scaled_fin items Ffin) as [SW1 SW2].
  destruct (used_space_fin (lc_total_gap k) items Kgf Ffin) as [US1 US2].
  set (S := qsum (fun c => if fi_frozen c then 0 else qs c) items) in *.
  set (W := qsum (fun c => if fi_frozen c then 0 else qw c) items) in *.
  assert (Snn : forall c, In c items -> 0 <= (if fi_frozen c then 0 else qs c)).
  { intros c Hc. destruct (fi_frozen c); [lra|]. apply (is_wf _ _ _ I c Hc). }
  assert (Wnn : forall c, In c items -> 0 <= (if fi_frozen c then 0 else qw c)).
  { intros c Hc. destruct (fi_frozen c); [lra|]. destruct (is_wf _ _ _ I c Hc) as [_ [A [_ [B _]]]].
    unfold qw. apply Qmult_le_0_compat; assumption. }
  destruct (Qlt_le_dec 0 S) as [Sp | Sz].
  - assert (S1 : 1 <= S).
    { destruct (qsum_pos_ex _ _ Sp) as [c [Hc Pc]]. pose proof (qsum_ge_term _ _ c Snn Hc) as L. fold S in L.
      revert Pc L. cbv beta. destruct (fi_frozen c); intros Pc L; [lra|].
      destruct (is_wf _ _ _ I c Hc) as [_ [_ [[Z|O] _]]]; lra. }
    set (used := used_space_of (lc_total_gap k) items) in *.
    assert (FS : free_space_of k items = sub Mx used).
    { unfold free_space_of. fold used. rewrite Kg, Ks, KM. cbn [andb maybe_sub_o unwrap_or].
      assert (E : ltb (sum_shrink items) one = false) by (apply ltb_false; [assumption|exact fin_one|rewrite val_one, SS2; exact S1]).
      rewrite E. reflexivity. }
    destruct (sub_fin Mx used FM US1) as [FF FV].
    set (free := sub Mx used) in *. set (sfs := sum_shrink items) in *. set (sss := sum_scaled_shrink items) in *.
    assert (Uge : qsum LoT items <= qsum (fun c => if fi_frozen c then qot c else qb c + qm c) items).
    { apply qsum_le. intros c Hc. unfold LoT. destruct (fi_frozen c) eqn:E; [lra|].
      destruct (is_unf _ _ _ I c Hc E). lra. }
    assert (Fneg : val free < 0). { rewrite FV, US2, VM, Kgv. pose proof (is_hi _ _ _ I). lra. }
    assert (E1 : is_normal free = true) by (apply is_normal_fin; [assumption|lra]).
    assert (E2 : gtb sfs zero = true).
    { unfold gtb; apply ltb_true; [exact fin_zero|assumption|]. rewrite val_zero, SS2. lra. }
    destruct (Qlt_le_dec 0 W) as [Wp | Wz].
    + assert (SWp : 0 < val sss) by (rewrite SW2; assumption).
      assert (D : distribute k (free_space_of k items) items =
                  map (on_unfrozen (fun c => set_target c (starget free sss c))) items).
      { unfold distribute. rewrite FS. fold sfs. fold sss.
        assert (E3 : gtb sss zero = true) by (unfold gtb; apply ltb_true; [exact fin_zero|assumption|rewrite val_zero; assumption]).
        rewrite E1, Kg, Ks, E2, E3. reflexivity. }
      rewrite (loop_body_sdist k items free sss D).
      set (hx := fun c : Item => fix_violation (set_target c (starget free sss c))).
      set (Vx := viol_sum (map (on_unfrozen hx) items)).
      assert (TX : forall c, In c items -> finite (starget free sss c) /\
                    val (starget free sss c) = qb c + val free * (qw c / val sss)).
      { intros c Hc. unfold starget. specialize (Ffin c Hc). unfold item_fin in Ffin.
        destruct (mul_fin (fi_inner_basis c) (fi_shrink c)) as [W1 W2]; [tauto|tauto|].
        destruct (div_fin (mul (fi_inner_basis c) (fi_shrink c)) sss) as [D1 D2]; [assumption|assumption|lra|].
        destruct (mul_fin free _ FF D1) as [M1 M2].
        destruct (add_fin (fi_basis c) (mul free (div (mul (fi_inner_basis c) (fi_shrink c)) sss))) as [A1 A2]; [tauto|assumption|].
        split; [assumption|]. rewrite A2, M2, D2, W2. reflexivity. }
      set (T := fun c : Item => qb c + val free * (qw c / val sss)).
      destruct (viol_sum_map hx items) as [VF VV].
      { intro c. reflexivity. }
      { intros c Hc E. destruct (TX c Hc) as [X1 X2].
        destruct (fix_violation_fields c _ (Ffin c Hc) X1) as [_ [F1 _]]. unfold hx. unfold item_fin in F1. tauto. }
      fold Vx in VF, VV.
      assert (HV : val Vx == qsum (fun c => if fi_frozen c then 0 else qcl c (T c) - T c) items).
      { rewrite VV. apply qsum_ext. intros c Hc. destruct (fi_frozen c); [reflexivity|].
        destruct (TX c Hc) as [X1 X2].
        destruct (fix_violation_fields c _ (Ffin c Hc) X1) as [_ [_ [_ [_ [V1 _]]]]]. unfold hx. rewrite V1, X2. reflexivity. }
      assert (HT1 : forall c, In c items -> fi_frozen c = false -> T c <= qb c).
      { intros c Hc E. unfold T. pose proof (Wnn c Hc) as Wc. rewrite E in Wc.
        pose proof (frac_nonpos (val free) (qw c) (val sss)). lra. }
      assert (HT2 : forall c, In c items -> fi_frozen c = false -> qw c == 0 -> T c == qb c).
      { intros c Hc E Z. unfold T. rewrite (frac_zero _ _ _ Z). lra. }
      assert (HS : gaps + qsum (fun c => if fi_frozen c then qot c else T c + qm c) items == M).
      { assert (EE : qsum (fun c => if fi_frozen c then qot c else T c + qm c) items ==
                     qsum (fun c => if fi_frozen c then qot c else qb c + qm c) items +
                     (val free / val sss) * qsum (fun c => if fi_frozen c then 0 else qw c) items).
        { rewrite <- qsum_scale, <- qsum_add. apply qsum_ext. intros c _. unfold T. destruct (fi_frozen c); [ring|].
          field. lra. }
        rewrite EE. fold W. rewrite <- SW2.
        assert (E4 : val free / val sss * val sss == val free) by (field; lra).
        rewrite E4, FV, US2, VM, Kgv. ring. }
      assert (Hfz : forall c, In c items -> fi_frozen c = true -> sstep free sss Vx c = c).
      { intros c _ E. unfold sstep, on_unfrozen. rewrite E. reflexivity. }
      assert (Hun : forall c, In c items -> fi_frozen c = false ->
        static_eq c (sstep free sss Vx c) /\ item_fin (sstep free sss Vx c) /\ qt (sstep free sss Vx c) == qcl c (T c) /\
        qot (sstep free sss Vx c) == qcl c (T c) + qm c /\
        (0 < val Vx -> (fi_frozen (sstep free sss Vx c) = true <-> 0 < qcl c (T c) - T c)) /\
        (val Vx < 0 -> (fi_frozen (sstep free sss Vx c) = true <-> qcl c (T c) - T c < 0)) /\
        (val Vx == 0 -> fi_frozen (sstep free sss Vx c) = true)).
      { intros c Hc E. destruct (TX c Hc) as [X1 X2].
        destruct (step_fields Vx _ c VF X1 (Ffin c Hc)) as [St [F1 [T1 [O1 [P1 [P2 P3]]]]]].
        unfold sstep, on_unfrozen. rewrite E. rewrite X2 in *. fold (T c) in *.
        split; [assumption|]. split; [assumption|]. rewrite T1, O1. repeat split; try reflexivity; try assumption.
        - apply P1; assumption. - apply P1; assumption. - apply P2; assumption. - apply P2; assumption. }
      destruct (Qlt_le_dec 0 (val Vx)) as [Vp | Vle].
      * right. exact (s_pos M gaps (val Vx) items _ T I HT1 HT2 HS HV Hfz Hun Vp).
      * destruct (Qlt_le_dec (val Vx) 0) as [Vn | Vge].
        -- right. exact (s_neg M gaps (val Vx) items _ T I HT1 HT2 HS HV Hfz Hun Vn).
        -- left. apply (s_exact M gaps (val Vx) items _ T I HS HV Hfz Hun). lra.
    + (* the sum of scaled shrink factors is zero: no distribution *)
      left. apply shrink_nodist; [assumption| |].
      * unfold distribute. rewrite FS. fold sfs. fold sss.
        assert (E3 : gtb sss zero = false).
        { unfold gtb. apply ltb_false; [exact fin_zero|assumption|]. rewrite val_zero, SW2. exact Wz. }
        rewrite E1, Kg, Ks, E2, E3. reflexivity.
      * intros c Hc E. pose proof (qsum_zero_terms _ _ Wnn Wz c Hc) as Zc. cbv beta in Zc. rewrite E in Zc. exact Zc.
  - (* every unfrozen item has shrink factor 0 *)
    assert (Z : forall c, In c items -> fi_frozen c = false -> qs c == 0).
    { intros c Hc E. pose proof (qsum_zero_terms _ _ Snn Sz c Hc) as Zc. cbv beta in Zc. rewrite E in Zc. exact Zc. }
    left. apply shrink_nodist; [assumption| |].
    + unfold distribute.
      assert (E2 : gtb (sum_shrink items) zero = false).
      { unfold gtb. apply ltb_false; [exact fin_zero|assumption|]. rewrite val_zero, SS2. exact Sz. }
      rewrite Kg, Ks, E2. cbn [andb]. destruct (is_normal _); reflexivity.
    + intros c Hc E. unfold qw. rewrite (Z c Hc E). ring.
Qed.

Lemma flex_loop_shrinking k M gaps : SCtx k M gaps -> forall fuel items, InvS M gaps items -> (cnt items < fuel)%nat ->
  exists res, flex_loop fuel k items = Some res /\ PostS M gaps res /\ Forall2 static_eq items res.
Proof.
  intros K fuel. induction fuel as [|f IH]; intros items I Hc; [lia|].
  destruct (forallb fi_frozen items) eqn:E.
  - exists items. split; [apply flex_loop_done; assumption|]. split; [|apply Forall2_static_refl].
    apply invS_all_frozen; [assumption|]. apply forallb_frozen_true. assumption.
  - pose proof (cnt_pos _ E) as Cp. simpl. rewrite E.
    destruct (shrinking_body k M gaps items K I E) as [P | [I' Hlt]].
    + destruct f as [|f']; [lia|]. exists (loop_body k items).
      split; [|split; [assumption | apply loop_body_static]].
      apply flex_loop_done. apply forallb_forall. intros c Hin. apply (ps_frozen _ _ _ P c Hin).
    + destruct (IH (loop_body k items) I') as [res [R1 [R2 R3]]]; [lia|].
      exists res. split; [assumption|]. split; [assumption|].
      exact (Forall2_static_trans _ _ _ (loop_body_static k items) R3).
Qed.

(* ================= resolve_flexible_lengths ================= *)
Definition exh_prem (c : Item) : Prop :=
  item_fin c /\ fi_frozen c = false /\ qh c == qcl c (qb c) /\ qho c == qh c + qm c.
Definition grow_ok (c : Item) : Prop := 0 <= qg c /\ (qg c == 0 \/ 1 <= qg c).
Definition shrink_ok (c : Item) : Prop := 0 <= qs c /\ (qs c == 0 \/ 1 <= qs c) /\ 0 <= qib c.

Lemma sum_axis_gaps_fin (gap : XQ) n : finite gap -> finite (sum_axis_gaps gap n).
Proof.
  intro F. unfold sum_axis_gaps. destruct (n <=? 1)%Z; [exact fin_zero|].
  apply mul_fin; [assumption | apply of_Z_fin].
Qed.

Lemma freeze_fields (e g s : bool) (c : Item) : item_fin c -> fi_frozen c = false ->
  let c' := freeze_inflexible e g s c in
  static_eq c c' /\ item_fin c' /\ qt c' = qh c /\ (fi_frozen c' = true -> qot c' = qh c + qm c) /\
  (fi_frozen c' = true <->
     e = true \/ (qg c == 0 /\ qs c == 0) \/ (g = true /\ qh c < qb c) \/ (s = true /\ qb c < qh c)).
Proof.
  intros F NF c'. assert (F' := F). unfold item_fin in F. decompose [and] F. clear F.
  destruct (margin_sum_fin c F') as [Fm1 Fm2].
  subst c'. unfold freeze_inflexible. fi_simpl. unfold margin_sum in *. fi_simpl.
  set (cond := e || (eqb (fi_grow c) zero && eqb (fi_shrink c) zero) || (g && gtb (fi_basis c) (fi_hyp_inner c))
               || (s && ltb (fi_basis c) (fi_hyp_inner c))).
  assert (CE : cond = true <->
     e = true \/ (qg c == 0 /\ qs c == 0) \/ (g = true /\ qh c < qb c) \/ (s = true /\ qb c < qh c)).
  { unfold cond, gtb. rewrite !orb_true_iff, !andb_true_iff.
    rewrite (eqb_true (fi_grow c) zero) by (assumption || exact fin_zero).
    rewrite (eqb_true (fi_shrink c) zero) by (assumption || exact fin_zero).
    rewrite (ltb_true (fi_hyp_inner c) (fi_basis c)) by assumption.
    rewrite (ltb_true (fi_basis c) (fi_hyp_inner c)) by assumption.
    rewrite val_zero. unfold qg, qs, qh, qb. tauto. }
  assert (Fhi : finite (fi_hyp_inner c)) by (unfold item_fin in F'; tauto).
  destruct (add_fin (fi_hyp_inner c) _ Fhi Fm1) as [A1 A2].
  destruct cond eqn:EC.
  - split; [repeat split|]. split; [unfold item_fin; fi_simpl; repeat split; assumption|].
    split; [reflexivity|]. split.
    + intros _. unfold qot, qh. fi_simpl. rewrite A2, Fm2. reflexivity.
    + fi_simpl. split; intro; [apply CE; reflexivity | reflexivity].
  - split; [repeat split|]. split; [unfold item_fin; fi_simpl; repeat split; assumption|].
    split; [reflexivity|]. fi_simpl. rewrite NF. split; [discriminate|].
    split; [discriminate|]. intro K. apply CE in K. discriminate.
Qed.

Lemma cnt_le_length (l : list Item) : (cnt l <= length l)%nat.
Proof. unfold cnt. induction l; simpl; [lia|]. destruct (unfrozen a); simpl; lia. Qed.

Lemma qclamp_lt_at_max c : item_fin c -> qcl c (qb c) < qb c -> exists m, qmaxo c = Some m /\ qcl c (qb c) == effmax (qmin c) m.
Proof. intros _ L. apply qclamp_lt_max. exact L. Qed.

Theorem exhausted (items : list Item) (gap M : XQ) :
  finite gap -> finite M -> (forall c, In c items -> exh_prem c) ->
  let gaps := val (sum_axis_gaps gap (zlen items)) in
  let hyp_total := gaps + qsum qho items in
  (hyp_total < val M -> forall c, In c items -> grow_ok c) ->
  (val M < hyp_total -> forall c, In c items -> shrink_ok c) ->
  exists res, resolve_flexible_lengths items gap (Some M) = Some res /\ Forall2 static_eq items res /\
    (forall c, In c res -> fi_frozen c = true /\ item_fin c /\ qot c == qt c + qm c) /\
    (gaps + qsum qot res == val M \/
     (hyp_total < val M /\ forall c, In c res -> ~ qg c == 0 -> at_max c) \/
     (val M < hyp_total /\ forall c, In c res -> ~ qs c == 0 -> ~ qib c == 0 -> at_min c)).
Proof.
  intros Fg FM Hp gaps hyp_total HG HS.
  unfold resolve_flexible_lengths.
  set (tg := sum_axis_gaps gap (zlen items)) in *.
  assert (Ftg : finite tg) by (apply sum_axis_gaps_fin; assumption).
  destruct (fsum_fin fi_hyp_outer items) as [FH1 FH2].
  { intros c Hc. destruct (Hp c Hc) as [F _]. unfold item_fin in F. tauto. }
  destruct (add_fin tg _ Ftg FH1) as [FU1 FU2].
  set (uff := add tg (fsum (map fi_hyp_outer items))) in *.
  assert (UV : val uff == hyp_total). { rewrite FU2, FH2. unfold hyp_total, gaps. fold qho. reflexivity. }
  cbn [unwrap_or].
  set (growing := ltb uff M). set (shrinking := gtb uff M).
  set (ex := negb growing && negb shrinking).
  set (items1 := map (freeze_inflexible ex growing shrinking) items).
  assert (FF : forall c, In c items -> let c' := freeze_inflexible ex growing shrinking c in
     static_eq c c' /\ item_fin c' /\ qt c' = qh c /\ (fi_frozen c' = true -> qot c' = qh c + qm c) /\
     (fi_frozen c' = true <->
        ex = true \/ (qg c == 0 /\ qs c == 0) \/ (growing = true /\ qh c < qb c) \/ (shrinking = true /\ qb c < qh c))).
  { intros c Hc. destruct (Hp c Hc) as [F [NF _]]. apply freeze_fields; assumption. }
  assert (ST1 : Forall2 static_eq items items1).
  { unfold items1. apply Forall2_static_map. intro c. unfold freeze_inflexible.
    match goal with |- context [if ?b then _ else _] => destruct b end; repeat split. }
  assert (LoE : qsum LoT items1 == qsum qho items).
  { unfold items1. rewrite qsum_map. apply qsum_ext. intros c Hc. destruct (FF c Hc) as [S [_ [T1 [O1 _]]]].
    destruct (Hp c Hc) as [_ [_ [_ Ho]]]. destruct (static_q _ _ S) as [_ [_ [Eh [_ [_ [_ [_ [_ Em]]]]]]]].
    unfold LoT. destruct (fi_frozen (freeze_inflexible ex growing shrinking c)) eqn:E.
    - rewrite (O1 eq_refl). lra.
    - rewrite Eh, Em. lra. }
  destruct ex eqn:EX.
  - (* exactly sized *)
    exists items1. split; [reflexivity|]. split; [assumption|].
    assert (AF : forall c, In c items1 -> fi_frozen c = true /\ item_fin c /\ qot c == qt c + qm c).
    { intros c' Hc'. apply in_map_iff in Hc'. destruct Hc' as [c [<- Hc]].
      destruct (FF c Hc) as [S [F1 [T1 [O1 FE]]]].
      assert (E : fi_frozen (freeze_inflexible true growing shrinking c) = true) by (apply FE; left; reflexivity).
      split; [assumption|]. split; [assumption|]. rewrite (O1 E), T1.
      destruct (static_q _ _ S) as [_ [_ [_ [_ [_ [_ [_ [_ Em]]]]]]]]. rewrite Em. reflexivity. }
    split; [assumption|]. left.
    assert (E : qsum qot items1 == qsum LoT items1).
    { apply qsum_ext. intros c Hc. unfold LoT. destruct (AF c Hc) as [-> _]. reflexivity. }
    rewrite E, LoE.
    unfold ex in EX. apply andb_true_iff in EX. destruct EX as [E1 E2]. apply negb_true_iff in E1, E2.
    unfold growing in E1. unfold shrinking, gtb in E2.
    apply ltb_false in E1; [|assumption|assumption]. apply ltb_false in E2; [|assumption|assumption].
    fold hyp_total. lra.
  - assert (Fit1 : forall c, In c items1 -> item_fin c).
    { intros c' Hc'. apply in_map_iff in Hc'. destruct Hc' as [c [<- Hc]]. apply (FF c Hc). }
    destruct (used_space_fin tg items1 Ftg Fit1) as [US1 US2].
    destruct (sub_fin M _ FM US1) as [IF1 _].
    cbn [maybe_sub_o unwrap_or].
    set (k := mkCtx tg (Some M) uff (sub M (used_space_of tg items1)) growing shrinking).
    assert (Hlen : (cnt items1 < S (length items1))%nat) by (pose proof (cnt_le_length items1); lia).
    unfold ex in EX. apply andb_false_iff in EX.
    destruct growing eqn:EG.
    + (* growing *)
      assert (GL : hyp_total < val M). { unfold growing in EG. apply ltb_true in EG; [|assumption|assumption]. lra. }
      assert (ES : shrinking = false).
      { unfold shrinking, gtb. apply ltb_false; [assumption|assumption|]. lra. }
      assert (K : GCtx k (val M) gaps).
      { constructor; cbn; try assumption; try reflexivity. exists M. repeat split; try assumption; reflexivity. }
      assert (I : InvG (val M) gaps items1).
      { constructor.
        - intros c' Hc'. apply in_map_iff in Hc'. destruct Hc' as [c [<- Hc]]. destruct (FF c Hc) as [S [F1 _]].
          split; [assumption|]. apply (gprem_static c _ S). destruct (Hp c Hc) as [_ [_ [Hh _]]].
          destruct (HG GL c Hc) as [G1 G2]. repeat split; assumption.
        - intros c' Hc' E'. apply in_map_iff in Hc'. destruct Hc' as [c [<- Hc]]. destruct (FF c Hc) as [S [_ [T1 [_ FE]]]].
          destruct (static_q _ _ S) as [Eb [_ [Eh _]]]. rewrite Eb, Eh, T1. split; [|intros _; reflexivity].
          destruct (Qlt_le_dec (qh c) (qb c)) as [L|L]; [|assumption]. exfalso.
          assert (fi_frozen (freeze_inflexible false true shrinking c) = true) by (apply FE; right; right; left; auto).
          congruence.
        - intros c' Hc' E'. apply in_map_iff in Hc'. destruct Hc' as [c [<- Hc]]. destruct (FF c Hc) as [S [_ [T1 [O1 _]]]].
          destruct (static_q _ _ S) as [_ [_ [_ [_ [_ [_ [_ [_ Em]]]]]]]]. rewrite (O1 E'), T1, Em. reflexivity.
        - rewrite LoE. fold hyp_total. assumption.
        - left. intros c' Hc' E' Hg'. apply in_map_iff in Hc'. destruct Hc' as [c [<- Hc]].
          destruct (FF c Hc) as [S [_ [T1 [_ FE]]]].
          destruct (static_q _ _ S) as [_ [_ [_ [_ [Emn [Emx [Eg _]]]]]]]. rewrite Eg in Hg'.
          apply FE in E'. destruct E' as [E'|[[Z _]|[[_ L]|[E' _]]]]; try discriminate; try tauto.
          destruct (Hp c Hc) as [Fc [_ [Hh _]]].
          destruct (qclamp_lt_at_max c Fc) as [m [Em Ec]]; [lra|].
          exists m. rewrite Emx, Emn. split; [assumption|]. rewrite T1, Hh. assumption.
          rewrite ES in E'. discriminate. }
      destruct (flex_loop_growing k (val M) gaps K (S (length items1)) items1 I Hlen) as [res [R1 [R2 R3]]].
      exists res. split; [exact R1|]. split; [exact (Forall2_static_trans _ _ _ ST1 R3)|]. split.
      * intros c Hc. split; [apply (pg_frozen _ _ _ R2 c Hc)|]. split; [apply (pg_fin _ _ _ R2 c Hc) | apply (pg_outer _ _ _ R2 c Hc)].
      * destruct (pg_law _ _ _ R2) as [L|L]; [left; assumption|]. right. left. split; assumption.
    + (* shrinking *)
      destruct EX as [EX|EX]; [discriminate|]. apply negb_false_iff in EX.
      assert (SL : val M < hyp_total). { unfold shrinking, gtb in EX. apply ltb_true in EX; [|assumption|assumption]. lra. }
      assert (K : SCtx k (val M) gaps).
      { constructor; cbn; try assumption; try reflexivity. exists M. repeat split; try assumption; reflexivity. }
      assert (I : InvS (val M) gaps items1).
      { constructor.
        - intros c' Hc'. apply in_map_iff in Hc'. destruct Hc' as [c [<- Hc]]. destruct (FF c Hc) as [S [F1 _]].
          split; [assumption|]. apply (sprem_static c _ S). destruct (Hp c Hc) as [_ [_ [Hh _]]].
          destruct (HS SL c Hc) as [G1 [G2 G3]]. repeat split; assumption.
        - intros c' Hc' E'. apply in_map_iff in Hc'. destruct Hc' as [c [<- Hc]]. destruct (FF c Hc) as [S [_ [T1 [_ FE]]]].
          destruct (static_q _ _ S) as [Eb [_ [Eh _]]]. rewrite Eb, Eh, T1. split; [|intros _; reflexivity].
          destruct (Qlt_le_dec (qb c) (qh c)) as [L|L]; [|assumption]. exfalso.
          assert (fi_frozen (freeze_inflexible false false shrinking c) = true) by (apply FE; right; right; right; auto).
          congruence.
        - intros c' Hc' E'. apply in_map_iff in Hc'. destruct Hc' as [c [<- Hc]]. destruct (FF c Hc) as [S [_ [T1 [O1 _]]]].
          destruct (static_q _ _ S) as [_ [_ [_ [_ [_ [_ [_ [_ Em]]]]]]]]. rewrite (O1 E'), T1, Em. reflexivity.
        - rewrite LoE. fold hyp_total. assumption.
        - left. intros c' Hc' E' Hg'. apply in_map_iff in Hc'. destruct Hc' as [c [<- Hc]].
          destruct (FF c Hc) as [S [_ [T1 [_ FE]]]]. rewrite (qw_static _ _ S) in Hg'.
          destruct (static_q _ _ S) as [_ [_ [_ [_ [Emn _]]]]].
          apply FE in E'. destruct E' as [E'|[[_ Z]|[[E' _]|[_ L]]]]; try discriminate.
          + exfalso. apply Hg'. unfold qw. rewrite Z. ring.
          + destruct (Hp c Hc) as [Fc [_ [Hh _]]]. unfold at_min. rewrite T1, Emn, Hh.
            unfold qcl. apply qclamp_gt_min. unfold qcl in Hh. lra. }
      destruct (flex_loop_shrinking k (val M) gaps K (S (length items1)) items1 I Hlen) as [res [R1 [R2 R3]]].
      exists res. split; [exact R1|]. split; [exact (Forall2_static_trans _ _ _ ST1 R3)|]. split.
      * intros c Hc. split; [apply (ps_frozen _ _ _ R2 c Hc)|]. split; [apply (ps_fin _ _ _ R2 c Hc) | apply (ps_outer _ _ _ R2 c Hc)].
      * destruct (ps_law _ _ _ R2) as [L|L]; [left; assumption|]. right. right. split; [assumption|].
        intros c Hc N1 N2. apply L; [assumption|]. unfold qw. intro Z.
        destruct (Qeq_dec (qib c) 0) as [Z1|Z1]; [tauto|]. apply N1.
        apply (Qmult_integral_l (qib c)); assumption.
Qed.

(* ================= termination for arbitrary (also non-finite) inputs ================= *)
Definition not_pos (x : XQ) : Prop := ltb (zero : XQ) x = false.
Definition not_neg (x : XQ) : Prop := ltb x (zero : XQ) = false.

Lemma not_pos_add (a b : XQ) : not_pos a -> not_pos b -> not_pos (add a b).
Proof.
  unfold not_pos. destruct a, b; simpl; auto; try discriminate.
  rewrite !negb_false_iff. intros A B. apply Qle_bool_iff in A, B. apply Qle_bool_iff. lra.
Qed.
Lemma not_neg_add (a b : XQ) : not_neg a -> not_neg b -> not_neg (add a b).
Proof.
  unfold not_neg. destruct a, b; simpl; auto; try discriminate.
  rewrite !negb_false_iff. intros A B. apply Qle_bool_iff in A, B. apply Qle_bool_iff. lra.
Qed.

Lemma not_pos_zero : not_pos zero. Proof. reflexivity. Qed.
Lemma not_neg_zero : not_neg zero. Proof. reflexivity. Qed.

Lemma fold_pos_ex {A} (F : A -> XQ) l : forall acc, not_pos acc ->
  ltb (zero : XQ) (fold_left (fun a x => add a (F x)) l acc) = true -> exists x, In x l /\ ltb (zero : XQ) (F x) = true.
Proof.
  induction l as [|y l IH]; cbn [fold_left In]; intros acc Ha Hp.
  - unfold not_pos in Ha. congruence.
  - destruct (ltb (zero : XQ) (F y)) eqn:E.
    + exists y. auto.
    + destruct (IH _ (not_pos_add _ _ Ha E) Hp) as [x [Hx Px]]. exists x. auto.
Qed.
Lemma fold_neg_ex {A} (F : A -> XQ) l : forall acc, not_neg acc ->
  ltb (fold_left (fun a x => add a (F x)) l acc) (zero : XQ) = true -> exists x, In x l /\ ltb (F x) (zero : XQ) = true.
Proof.
  induction l as [|y l IH]; cbn [fold_left In]; intros acc Ha Hp.
  - unfold not_neg in Ha. congruence.
  - destruct (ltb (F y) (zero : XQ)) eqn:E.
    + exists y. auto.
    + destruct (IH _ (not_neg_add _ _ Ha E) Hp) as [x [Hx Px]]. exists x. auto.
Qed.

Lemma viol_sum_shape (h : Item -> Item) l : (forall c, fi_frozen (h c) = fi_frozen c) ->
  viol_sum (map (on_unfrozen h) l) = fold_left (fun a c => add a (fi_violation (h c))) (filter unfrozen l) zero.
Proof.
  intro Hh. unfold viol_sum. generalize (zero : XQ). induction l as [|a l IH]; intro acc; [reflexivity|].
  cbn [map filter].
  assert (E0 : unfrozen (on_unfrozen h a) = unfrozen a).
  { unfold on_unfrozen, unfrozen. destruct (fi_frozen a) eqn:E; [rewrite E|rewrite Hh, E]; reflexivity. }
  rewrite E0. destruct (unfrozen a) eqn:E.
  - cbn [fold_left]. replace (on_unfrozen h a) with (h a).
    + apply IH.
    + unfold on_unfrozen. unfold unfrozen in E. apply negb_true_iff in E. rewrite E. reflexivity.
  - apply IH.
Qed.

Lemma distribute_shape k f (items : list Item) :
  exists r : Item -> Item, (forall c, fi_frozen (r c) = fi_frozen c) /\ distribute k f items = map (on_unfrozen r) items.
Proof.
  assert (ID : exists r : Item -> Item, (forall c, fi_frozen (r c) = fi_frozen c) /\ items = map (on_unfrozen r) items).
  { exists (fun c => c). split; [reflexivity|]. rewrite <- (map_id items) at 1. apply map_ext. intro c.
    unfold on_unfrozen. destruct (fi_frozen c); reflexivity. }
  unfold distribute.
  repeat match goal with |- context [if ?b then _ else _] => destruct b end; try exact ID;
    eexists; (split; [|reflexivity]); intro c; reflexivity.
Qed.

Lemma loop_body_decreases k (items : list Item) : forallb fi_frozen items = false ->
  (cnt (loop_body k items) < cnt items)%nat.
Proof.
  intro NF. rewrite loop_body_unfold. cbv zeta.
  destruct (distribute_shape k (free_space_of k items) items) as [r [Hr ->]].
  rewrite (on_unfrozen_fuse fix_violation r items Hr).
  set (h := fun c => fix_violation (r c)).
  assert (Hh : forall c, fi_frozen (h c) = fi_frozen c) by (intro c; unfold h; simpl; apply Hr).
  set (V := viol_sum (map (on_unfrozen h) items)).
  rewrite (on_unfrozen_fuse (freeze_by_violation V) h items Hh).
  assert (VS : V = fold_left (fun a c => add a (fi_violation (h c))) (filter unfrozen items) zero) by (apply viol_sum_shape; assumption).
  apply cnt_map_lt.
  - intros c _ E. unfold on_unfrozen. rewrite E. assumption.
  - unfold on_unfrozen, freeze_by_violation, gtb.
    destruct (ltb (zero : XQ) V) eqn:E1; [|destruct (ltb V (zero : XQ)) eqn:E2].
    + rewrite VS in E1. destruct (fold_pos_ex _ _ zero not_pos_zero E1) as [c [Hc Pc]].
      apply filter_In in Hc. destruct Hc as [Hc U]. unfold unfrozen in U. apply negb_true_iff in U.
      exists c. split; [assumption|]. split; [assumption|]. rewrite U. fi_simpl. exact Pc.
    + rewrite VS in E2. destruct (fold_neg_ex _ _ zero not_neg_zero E2) as [c [Hc Pc]].
      apply filter_In in Hc. destruct Hc as [Hc U]. unfold unfrozen in U. apply negb_true_iff in U.
      exists c. split; [assumption|]. split; [assumption|]. rewrite U. fi_simpl. exact Pc.
    + destruct (forallb_frozen_false _ NF) as [c [Hc U]]. exists c. split; [assumption|]. split; [assumption|].
      rewrite U. reflexivity.
Qed.

Lemma flex_loop_total k : forall fuel (items : list Item), (cnt items < fuel)%nat -> exists res, flex_loop fuel k items = Some res.
Proof.
  induction fuel as [|f IH]; intros items Hc; [lia|]. simpl.
  destruct (forallb fi_frozen items) eqn:E; [eexists; reflexivity|].
  apply IH. pose proof (loop_body_decreases k items E). lia.
Qed.

Theorem loop_terminates (items : list Item) (gap : XQ) (M : option XQ) :
  exists res, resolve_flexible_lengths items gap M = Some res.
Proof.
  unfold resolve_flexible_lengths.
  match goal with |- context [if ?b then _ else _] => destruct b end; [eexists; reflexivity|].
  apply flex_loop_total. match goal with |- (cnt ?l < S (length ?l))%nat => pose proof (cnt_le_length l); lia end.
Qed.

(* ================= main-axis order / no overlap ================= *)
Definition triple : Type := (Item * XQ * XQ).     (* item (after alignment), its size.main, its location.main *)

(* b lies after a, their margin boxes separated by at least `sep` *)
Definition sepR (sep : Q) (a b : triple) : Prop :=
  let '(i, si, pi) := a in let '(j, sj, pj) := b in
  val pi + val si + val (fi_margin_end i) + val (fi_margin_start j) + sep <= val pj.

Definition pos_prem (c : Item) : Prop :=
  finite (fi_margin_start c) /\ finite (fi_margin_end c) /\ finite (fi_inset c) /\ finite (fi_offset c) /\
  0 <= val (fi_margin_start c) /\ 0 <= val (fi_margin_end c) /\ val (fi_inset c) == 0.

Lemma place_length (t : XQ) (l : list (Item * XQ)) : length (place t l) = length l.
Proof. revert t. induction l as [|[it s] l IH]; intro t; simpl; auto. Qed.

(* every position produced after `total` lies at least sep + margin_start beyond it, when all offsets are >= sep >= 0 *)
Lemma place_lower (sep : Q) (l : list (Item * XQ)) : 0 <= sep ->
  (forall it s, In (it, s) l -> pos_prem it /\ finite s /\ 0 <= val s /\ sep <= val (fi_offset it)) ->
  forall total, finite total ->
  Forall (fun '(it, s, p) => finite p /\ val total + sep + val (fi_margin_start it) <= val p) (combine l (place total l)).
Proof.
  intros Hs. induction l as [|[it s] l IH]; intros Hl total Ft; cbn [place combine]; [constructor|].
  destruct (Hl it s (or_introl eq_refl)) as [[F1 [F2 [F3 [F4 [P1 [P2 Z]]]]]] [Fs [Ps Po]]].
  destruct (add_fin total _ Ft F4) as [A1 A2]. destruct (add_fin _ _ A1 F1) as [B1 B2]. destruct (add_fin _ _ B1 F3) as [C1 C2].
  destruct (add_fin _ _ F1 F2) as [M1 M2]. destruct (add_fin _ _ F4 M1) as [D1 D2]. destruct (add_fin _ _ D1 Fs) as [E1 E2].
  destruct (add_fin total _ Ft E1) as [G1 G2].
  constructor.
  - split; [exact C1|]. rewrite C2, B2, A2. lra.
  - specialize (IH (fun it' s' Hi => Hl it' s' (or_intror Hi)) _ G1).
    unfold margin_sum. eapply Forall_impl; [|exact IH]. intros [[it' s'] p'] [Fp Lp]. split; [assumption|].
    rewrite G2, E2, D2, M2 in Lp. lra.
Qed.

Lemma place_pairs (sep : Q) (l : list (Item * XQ)) : 0 <= sep ->
  (forall it s, In (it, s) l -> pos_prem it /\ finite s /\ 0 <= val s) ->
  (* every item but the first has offset >= sep *)
  (match l with [] => True | _ :: r => forall it s, In (it, s) r -> sep <= val (fi_offset it) end) ->
  forall total, finite total -> ForallOrdPairs (sepR sep) (combine l (place total l)).
Proof.
  intros Hs. induction l as [|[it s] l IH]; intros Hl Ho total Ft; cbn [place combine]; [constructor|].
  destruct (Hl it s (or_introl eq_refl)) as [[F1 [F2 [F3 [F4 [P1 [P2 Z]]]]]] [Fs Ps]].
  destruct (add_fin total _ Ft F4) as [A1 A2]. destruct (add_fin _ _ A1 F1) as [B1 B2]. destruct (add_fin _ _ B1 F3) as [C1 C2].
  destruct (add_fin _ _ F1 F2) as [M1 M2]. destruct (add_fin _ _ F4 M1) as [D1 D2]. destruct (add_fin _ _ D1 Fs) as [E1 E2].
  destruct (add_fin total _ Ft E1) as [G1 G2].
  constructor.
  - assert (H1 : forall it' s', In (it', s') l -> pos_prem it' /\ finite s' /\ 0 <= val s' /\ sep <= val (fi_offset it')).
    { intros it' s' Hi. destruct (Hl it' s' (or_intror Hi)) as [a [b c]].
      split; [exact a|]. split; [exact b|]. split; [exact c|]. apply (Ho it' s' Hi). }
    pose proof (place_lower sep l Hs H1 _ G1) as PL. unfold margin_sum in *.
    eapply Forall_impl; [|exact PL]. intros [[it' s'] p'] [Fp Lp]. unfold sepR.
    rewrite G2, E2, D2, M2 in Lp. rewrite C2, B2, A2. lra.
  - apply IH; [intros it' s' Hi; apply Hl; right; assumption| |assumption].
    destruct l as [|[it1 s1] r]; [exact I|]. intros it' s' Hi. apply (Ho it' s'). right. assumption.
Qed.

Lemma ForallOrdPairs_app {A} (R : A -> A -> Prop) l1 l2 :
  ForallOrdPairs R l1 -> ForallOrdPairs R l2 -> (forall x y, In x l1 -> In y l2 -> R x y) -> ForallOrdPairs R (l1 ++ l2).
Proof.
  induction 1; simpl; intros H2 H3; [assumption|]. constructor.
  - apply Forall_app. split; [assumption|]. apply Forall_forall. intros y Hy. apply H3; auto.
  - apply IHForallOrdPairs; auto.
Qed.
Lemma ForallOrdPairs_rev {A} (R : A -> A -> Prop) l : ForallOrdPairs R l -> ForallOrdPairs (fun x y => R y x) (rev l).
Proof.
  induction 1; simpl; [constructor|]. apply ForallOrdPairs_app; [assumption|repeat constructor|].
  intros x y Hx [<-|[]]. apply in_rev in Hx. rewrite Forall_forall in H. apply H. assumption.
Qed.

(* the offset of a non-first item is at least the gap *)
Lemma alignment_offset_ge_gap (free gap : XQ) n mode rv : finite free -> finite gap -> (2 <= n)%Z ->
  finite (compute_alignment_offset free n gap mode rv false) /\
  val gap <= val (compute_alignment_offset free n gap mode rv false).
Proof.
  intros Ff Fg Hn. unfold compute_alignment_offset.
  destruct (fmax_fin free zero Ff fin_zero) as [M1 M2]. rewrite val_zero in M2.
  assert (Mp : 0 <= val (fmax free zero)) by (rewrite M2; unfold qmx; destruct (Qle_bool 0 (val free)) eqn:E; [apply Qle_bool_iff in E; assumption | lra]).
  assert (DV : forall d, (1 <= d)%Z -> finite (div (fmax free zero) (of_Z d)) /\ 0 <= val (div (fmax free zero) (of_Z d))).
  { intros d Hd. destruct (of_Z_fin d) as [Z1 Z2].
    assert (Dp : 0 < inject_Z d) by (replace 0 with (inject_Z 0) by reflexivity; rewrite <- Zlt_Qlt; lia).
    destruct (div_fin (fmax free zero) (of_Z d) M1 Z1) as [D1 D2]; [rewrite Z2; lra|].
    split; [assumption|]. rewrite D2, Z2. apply Qle_shift_div_l; [assumption|lra]. }
  (* every arm is gap + x with x = 0.0 or max(free, 0) / (a count >= 1): robust against harmless edits of the table *)
  destruct mode;
    match goal with
    | |- finite (add ?g ?x) /\ _ =>
        let F := fresh "F" in let P := fresh "P" in
        assert (F : finite x /\ 0 <= val x) by (first [split; [exact fin_zero | rewrite val_zero; lra] | apply DV; lia]);
        destruct F as [F P]; destruct (add_fin g x Fg F) as [A1 A2]; split; [exact A1 | rewrite A2; lra]
    end.
Qed.

Lemma alignment_offset_first_fin (free gap : XQ) n mode rv : finite free -> finite gap -> (1 <= n)%Z ->
  finite (compute_alignment_offset free n gap mode rv true).
Proof.
  intros Ff Fg Hn. unfold compute_alignment_offset.
  assert (DV : forall (x : XQ) d, finite x -> (1 <= d)%Z -> finite (div x (of_Z d))).
  { intros x d Fx Hd. destruct (of_Z_fin d) as [Z1 Z2].
    assert (Dp : 0 < inject_Z d) by (replace 0 with (inject_Z 0) by reflexivity; rewrite <- Zlt_Qlt; lia).
    apply (div_fin x (of_Z d) Fx Z1). rewrite Z2. lra. }
  destruct mode; try exact fin_zero; try assumption; try (destruct rv; (exact fin_zero || assumption)).
  - apply DV; [assumption|lia].
  - destruct (leb zero free); apply DV; try assumption; try lia.
  - destruct (leb zero free); [apply DV; [apply DV; [assumption|lia]|lia] | apply DV; [assumption|lia]].
Qed.

Definition oprem (c : Item) : Prop :=
  finite (fi_margin_start c) /\ finite (fi_margin_end c) /\ finite (fi_inset c) /\ finite (fi_outer_target c) /\
  0 <= val (fi_margin_start c) /\ 0 <= val (fi_margin_end c) /\ val (fi_inset c) == 0 /\
  fi_margin_start_auto c = false /\ fi_margin_end_auto c = false.

Definition justify_item (free gap : XQ) n mode rv (is_first : bool) (c : Item) : Item :=
  set_offset c (compute_alignment_offset free n gap mode rv is_first).

Lemma forward_line (items : list Item) (free gap : XQ) n mode rv (sizes : list XQ) (start : XQ) :
  finite free -> finite gap -> 0 <= val gap -> finite start -> n = zlen items ->
  (forall c, In c items -> oprem c) -> (forall s, In s sizes -> finite s /\ 0 <= val s) ->
  let items' := map_first (justify_item free gap n mode rv true) (justify_item free gap n mode rv false) items in
  ForallOrdPairs (sepR (val gap)) (combine (combine items' sizes) (place start (combine items' sizes))).
Proof.
  intros Ff Fg Gp Fs Hn Hp Hs items'.
  assert (J : forall b c, oprem c -> finite (compute_alignment_offset free n gap mode rv b) -> pos_prem (justify_item free gap n mode rv b c)).
  { intros b c [A1 [A2 [A3 [A4 [A5 [A6 [A7 _]]]]]]] Fo. unfold pos_prem, justify_item. fi_simpl. repeat split; assumption. }
  apply place_pairs; try assumption.
  - intros it s Hi. pose proof (in_combine_l _ _ _ _ Hi) as H1. pose proof (in_combine_r _ _ _ _ Hi) as H2.
    split; [|apply Hs; assumption].
    unfold items', map_first in H1. destruct items as [|x r]; [destruct H1|].
    assert (N1 : (1 <= n)%Z) by (rewrite Hn; unfold zlen; simpl; lia).
    destruct H1 as [<- | H1].
    + apply J; [apply Hp; left; reflexivity | apply alignment_offset_first_fin; assumption].
    + apply in_map_iff in H1. destruct H1 as [c [<- Hc]]. apply J; [apply Hp; right; assumption|].
      assert (N2 : (2 <= n)%Z) by (rewrite Hn; unfold zlen; destruct r; [destruct Hc | simpl; lia]).
      apply alignment_offset_ge_gap; assumption.
  - unfold items', map_first. destruct items as [|x r]; [exact I|]. cbn [combine].
    destruct sizes as [|s0 st]; [exact I|]. intros it s Hi. pose proof (in_combine_l _ _ _ _ Hi) as H1.
    apply in_map_iff in H1. destruct H1 as [c [<- Hc]]. unfold justify_item. fi_simpl.
    assert (N2 : (2 <= n)%Z) by (rewrite Hn; unfold zlen; destruct r; [destruct Hc | simpl; lia]).
    apply alignment_offset_ge_gap; assumption.
Qed.

Lemma combine_app' {A B} (a1 a2 : list A) (b1 b2 : list B) : length a1 = length b1 ->
  combine (a1 ++ a2) (b1 ++ b2) = combine a1 b1 ++ combine a2 b2.
Proof.
  revert b1. induction a1; destruct b1; simpl; intro H; try discriminate; auto. f_equal. apply IHa1. lia.
Qed.
Lemma combine_rev' {A B} (a : list A) (b : list B) : length a = length b -> combine (rev a) (rev b) = rev (combine a b).
Proof.
  revert b. induction a; destruct b; simpl; intro H; try discriminate; auto.
  rewrite combine_app' by (rewrite !rev_length; lia). rewrite IHa by lia. reflexivity.
Qed.

Lemma map_first_length {A B} (f g : A -> B) l : length (map_first f g l) = length l.
Proof. destruct l; simpl; [reflexivity|]. rewrite map_length. reflexivity. Qed.

Lemma count_auto_zero (items : list Item) : (forall c, In c items -> oprem c) -> count_auto items = 0%Z.
Proof.
  unfold count_auto.
  assert (G : forall z, (forall c, In c items -> oprem c) ->
    fold_left (fun (n : Z) (c : Item) => (n + (if fi_margin_start_auto c then 1 else 0) + (if fi_margin_end_auto c then 1 else 0))%Z) items z = z).
  { induction items as [|a l IH]; intros z Hp; simpl; [reflexivity|].
    destruct (Hp a (or_introl eq_refl)) as [_ [_ [_ [_ [_ [_ [_ [E1 E2]]]]]]]]. rewrite E1, E2.
    replace (z + 0 + 0)%Z with z by lia. apply IH. intros c Hc. apply Hp. right. assumption. }
  apply G.
Qed.

Theorem order_no_overlap (items : list Item) (gap inner start : XQ) (jc : option AlignContent) (rv : bool) (sizes : list XQ) :
  finite gap -> 0 <= val gap -> finite inner -> finite start ->
  (forall c, In c items -> oprem c) ->
  length sizes = length items -> (forall s, In s sizes -> finite s /\ 0 <= val s) ->
  let items' := distribute_remaining_free_space items gap inner jc rv in
  let pos := line_positions start rv (combine items' sizes) in
  Forall2 (fun c c' => fi_margin_start c' = fi_margin_start c /\ fi_margin_end c' = fi_margin_end c) items items' /\
  ForallOrdPairs (fun a b => if rv then sepR (val gap) b a else sepR (val gap) a b) (combine (combine items' sizes) pos).
Proof.
  intros Fg Gp Fi Fs Hp Hl Hs. cbv zeta.
  unfold distribute_remaining_free_space.
  rewrite (count_auto_zero items Hp). rewrite andb_false_r.
  set (n := zlen items) in *.
  set (free := sub inner (add (sum_axis_gaps gap n) (fsum (map fi_outer_target items)))) in *.
  set (mode := apply_alignment_fallback free n (match jc with Some j => j | None => AC_FlexStart end) false) in *.
  change (fun (is_first : bool) (c : Item) => set_offset c (compute_alignment_offset free n gap mode rv is_first))
    with (justify_item free gap n mode rv).
  cbv zeta.
  assert (Ff : finite free).
  { unfold free. destruct (fsum_fin fi_outer_target items) as [A1 _]; [intros c Hc; apply (Hp c Hc)|].
    apply sub_fin; [assumption|]. apply add_fin; [apply sum_axis_gaps_fin; assumption | assumption]. }
  assert (MF : forall l : list Item, Forall2 (fun c c' => fi_margin_start c' = fi_margin_start c /\ fi_margin_end c' = fi_margin_end c) l
            (map_first (justify_item free gap n mode rv true) (justify_item free gap n mode rv false) l)).
  { intros l. destruct l as [|x r]; simpl; constructor; [split; reflexivity|].
    induction r; simpl; constructor; [split; reflexivity | assumption]. }
  destruct rv.
  - (* reverse: the same forward layout on the reversed lists *)
    set (ritems' := map_first (justify_item free gap n mode true true) (justify_item free gap n mode true false) (rev items)) in *.
    assert (L1 : length ritems' = length sizes) by (unfold ritems'; rewrite map_first_length, rev_length; lia).
    change (map_first (fun c : Item => set_offset c (compute_alignment_offset free n gap mode true true))
                      (fun c : Item => set_offset c (compute_alignment_offset free n gap mode true false)) (rev items)) with ritems'.
    split.
    + specialize (MF (rev items)). fold ritems' in MF.
      rewrite <- (rev_involutive items) at 1. clear - MF. revert MF. generalize (rev items) ritems'.
      intros a b H. induction H; simpl; [constructor|]. apply Forall2_app; [assumption|]. constructor; [assumption|constructor].
    + unfold line_positions.
      assert (E1 : rev (combine (rev ritems') sizes) = combine ritems' (rev sizes)).
      { rewrite <- (rev_involutive sizes) at 1. rewrite combine_rev' by (rewrite rev_length; lia). apply rev_involutive. }
      rewrite E1. set (L := combine ritems' (rev sizes)).
      assert (FW : ForallOrdPairs (sepR (val gap)) (combine L (place start L))).
      { apply forward_line; try assumption.
        - unfold n, zlen. rewrite rev_length. reflexivity.
        - intros c Hc. apply Hp. apply in_rev. assumption.
        - intros s Hs'. apply Hs. apply in_rev. assumption. }
      assert (E2 : combine (combine (rev ritems') sizes) (rev (place start L)) = rev (combine L (place start L))).
      { rewrite <- combine_rev' by (rewrite place_length; reflexivity). f_equal. unfold L.
        rewrite <- combine_rev' by (rewrite rev_length; lia). rewrite rev_involutive. reflexivity. }
      rewrite E2. apply ForallOrdPairs_rev in FW. exact FW.
  - split; [apply MF|]. unfold line_positions. apply forward_line; try assumption. reflexivity.
Qed.

(* ---------- the auto-margin branch of distribute_remaining_free_space: margin boxes still do not overlap, but
   the gap is not inserted (offset_main stays 0) *)
Definition aprem (c : Item) : Prop :=
  finite (fi_margin_start c) /\ finite (fi_margin_end c) /\ finite (fi_inset c) /\ finite (fi_outer_target c) /\
  finite (fi_offset c) /\
  0 <= val (fi_margin_start c) /\ 0 <= val (fi_margin_end c) /\ val (fi_inset c) == 0 /\ val (fi_offset c) == 0.

Lemma count_auto_nonneg (items : list Item) : (0 <= count_auto items)%Z.
Proof.
  unfold count_auto.
  assert (G : forall z, (0 <= z)%Z -> (0 <= fold_left (fun (n : Z) (c : Item) =>
     (n + (if fi_margin_start_auto c then 1 else 0) + (if fi_margin_end_auto c then 1 else 0))%Z) items z)%Z).
  { induction items as [|a l IH]; intros z Hz; simpl; [assumption|]. apply IH.
    destruct (fi_margin_start_auto a), (fi_margin_end_auto a); lia. }
  apply G. lia.
Qed.

Theorem order_auto_margins (items : list Item) (gap inner start : XQ) (jc : option AlignContent) (rv : bool) (sizes : list XQ) :
  finite gap -> finite inner -> finite start ->
  (forall c, In c items -> aprem c) ->
  length sizes = length items -> (forall s, In s sizes -> finite s /\ 0 <= val s) ->
  let free := sub inner (add (sum_axis_gaps gap (zlen items)) (fsum (map fi_outer_target items))) in
  0 < val free -> (0 < count_auto items)%Z ->
  let items' := distribute_remaining_free_space items gap inner jc rv in
  let pos := line_positions start rv (combine items' sizes) in
  (forall c, In c items' -> 0 <= val (fi_margin_start c) /\ 0 <= val (fi_margin_end c)) /\
  ForallOrdPairs (fun a b => if rv then sepR 0 b a else sepR 0 a b) (combine (combine items' sizes) pos).
Proof.
  intros Fg Fi Fs Hp Hl Hs free Fpos Cpos. cbv zeta.
  unfold distribute_remaining_free_space. fold free.
  assert (Ff : finite free).
  { unfold free. destruct (fsum_fin fi_outer_target items) as [A1 _]; [intros c Hc; apply (Hp c Hc)|].
    apply sub_fin; [assumption|]. apply add_fin; [apply sum_axis_gaps_fin; assumption | assumption]. }
  assert (E1 : gtb free zero = true) by (unfold gtb; apply ltb_true; [exact fin_zero|assumption|rewrite val_zero; assumption]).
  assert (E2 : (0 <? count_auto items)%Z = true) by (apply Z.ltb_lt; assumption).
  rewrite E1, E2. cbn [andb].
  set (m := div free (of_Z (count_auto items))).
  assert (Fm : finite m /\ 0 <= val m).
  { destruct (of_Z_fin (count_auto items)) as [Z1 Z2].
    assert (Dp : 0 < inject_Z (count_auto items)) by (replace 0 with (inject_Z 0) by reflexivity; rewrite <- Zlt_Qlt; lia).
    destruct (div_fin free (of_Z (count_auto items)) Ff Z1) as [D1 D2]; [rewrite Z2; lra|].
    split; [assumption|]. unfold m. rewrite D2, Z2. apply Qle_shift_div_l; [assumption|lra]. }
  set (sm := fun c : Item => set_margins c (if fi_margin_start_auto c then m else fi_margin_start c)
                                         (if fi_margin_end_auto c then m else fi_margin_end c)).
  assert (PP : forall c, In c items -> pos_prem (sm c) /\ 0 <= val (fi_offset (sm c))).
  { intros c Hc. destruct (Hp c Hc) as [A1 [A2 [A3 [A4 [A5 [A6 [A7 [A8 A9]]]]]]]]. destruct Fm as [Fm1 Fm2].
    unfold pos_prem, sm. fi_simpl. repeat split; try assumption;
      try (destruct (fi_margin_start_auto c); assumption); try (destruct (fi_margin_end_auto c); assumption). lra. }
  set (items' := map sm items).
  assert (L1 : length items' = length sizes) by (unfold items'; rewrite map_length; lia).
  assert (PL : forall it s, In (it, s) (combine items' sizes) -> pos_prem it /\ finite s /\ 0 <= val s).
  { intros it s Hi. pose proof (in_combine_l _ _ _ _ Hi) as H1. pose proof (in_combine_r _ _ _ _ Hi) as H2.
    apply in_map_iff in H1. destruct H1 as [c [<- Hc]]. split; [apply PP; assumption | apply Hs; assumption]. }
  assert (PO : forall it s, In (it, s) (combine items' sizes) -> 0 <= val (fi_offset it)).
  { intros it s Hi. pose proof (in_combine_l _ _ _ _ Hi) as H1.
    apply in_map_iff in H1. destruct H1 as [c [<- Hc]]. apply PP; assumption. }
  split.
  { intros c' Hc'. apply in_map_iff in Hc'. destruct Hc' as [c [<- Hc]]. destruct (PP c Hc) as [[_ [_ [_ [_ [B1 [B2 _]]]]]] _]. auto. }
  unfold line_positions. destruct rv.
  - set (L := rev (combine items' sizes)).
    assert (FW : ForallOrdPairs (sepR 0) (combine L (place start L))).
    { apply place_pairs; [lra| | |assumption].
      - intros it s Hi. apply PL. apply in_rev. assumption.
      - destruct L as [|x r] eqn:EL; [exact I|]. intros it s Hi. apply (PO it s). apply in_rev. fold L. rewrite EL. right. assumption. }
    assert (E3 : combine (combine items' sizes) (rev (place start L)) = rev (combine L (place start L))).
    { rewrite <- combine_rev' by (rewrite place_length; reflexivity). unfold L. rewrite rev_involutive. reflexivity. }
    rewrite E3. apply ForallOrdPairs_rev in FW. exact FW.
  - apply place_pairs; [lra|assumption| |assumption].
    destruct (combine items' sizes) as [|x r] eqn:EL; [exact I|]. intros it s Hi. apply (PO it s). right. assumption.
Qed.

(* ================= the justify-content table (Gen/FlexGen.v) against CSS Box Alignment ================= *)
Lemma q_sign_inject_pos k : (1 <= k)%Z -> q_sign (inject_Z k) = Gt.
Proof. intro H. unfold q_sign. simpl. apply Z.compare_gt_iff. lia. Qed.
Lemma x_div_pos (a : Q) (k : Z) : (1 <= k)%Z -> x_div (Fin a) (Fin (inject_Z k)) = Fin (a / inject_Z k).
Proof. intro H. unfold x_div. rewrite (q_sign_inject_pos k H). reflexivity. Qed.
Lemma x_max_Fin a b : x_max (Fin a) (Fin b) = Fin (qmx a b).
Proof. unfold x_max, qmx. simpl. destruct (Qle_bool b a); reflexivity. Qed.
Lemma inject_pos k : (1 <= k)%Z -> 0 < inject_Z k.
Proof. intro H. replace 0 with (inject_Z 0) by reflexivity. rewrite <- Zlt_Qlt. lia. Qed.

Ltac table_val Hf :=
  unfold compute_alignment_offset;
  cbn [fmax fmin QNum div add mul sub of_Z zero one leb ltb];
  rewrite ?x_max_Fin; cbn [x_leb];
  rewrite ?(proj2 (Qle_bool_iff _ _) Hf);
  rewrite ?x_div_pos by lia; cbn [x_add val];
  rewrite ?x_div_pos by lia; cbn [x_add val].

(* offsets of the first / of every further item for non-negative free space and n >= 2 items:
   start, end, center; space-between = free/(n-1) between items; space-around = free/n between, half of it at the ends;
   space-evenly = free/(n+1) everywhere *)
Theorem justify_offsets_spec (f g : Q) (n : Z) (rv : bool) : 0 <= f -> (2 <= n)%Z ->
  let first m := val (compute_alignment_offset (Fin f) n (Fin g) m rv true) in
  let next m := val (compute_alignment_offset (Fin f) n (Fin g) m rv false) in
  (first AC_Start == 0 /\ next AC_Start == g) /\
  (first AC_End == f /\ next AC_End == g) /\
  (first AC_FlexStart == (if rv then f else 0) /\ next AC_FlexStart == g) /\
  (first AC_FlexEnd == (if rv then 0 else f) /\ next AC_FlexEnd == g) /\
  (first AC_Center == f / 2 /\ next AC_Center == g) /\
  (first AC_Stretch == 0 /\ next AC_Stretch == g) /\
  (first AC_SpaceBetween == 0 /\ next AC_SpaceBetween == g + f / inject_Z (n - 1)) /\
  (first AC_SpaceAround == f / inject_Z n / 2 /\ next AC_SpaceAround == g + f / inject_Z n) /\
  (first AC_SpaceEvenly == f / inject_Z (n + 1) /\ next AC_SpaceEvenly == g + f / inject_Z (n + 1)).
Proof.
  intros Hf Hn first next. subst first next. cbv beta.
  assert (Q0 : qmx f 0 == f) by (qcases; lra).
  repeat split; table_val Hf; try (destruct rv; cbn [val]); try rewrite Q0; try lra; try reflexivity.
Qed.
