(* C12 for WHOLE TREES: in engines made of block containers and leaves (Model/BlockEngine.v), rewriting ANY subset of the
   eligible nodes from content-box to border-box (b_to_border_box: box_sizing := BorderBox, every length among size / min_size /
   max_size increased by padding+border) changes no output and no stored layout, up to the equality of rationals.

   The relations are those of C04 at k = 1: `sc 1 a a'` is `xeq a' a` (sc1_iff), so bin_rel 1 / bout_rel 1 / blay_rel 1 are
   "equal as numbers, field by field".  Pieces:
     bb_weak               the rewrite of an eligible style is invisible to both resolutions the block algorithm performs
                           (block_resolve for the container's own size / min / max, generate_item for a child's): the Gallina
                           form of the `generate_item_list` and `compute_block_layout` / `compute_inner` entries of the site table
     leaf_out_bb           the leaf: Proofs/BoxSizingProofs.v leaf_invariant (C12_leaf) through the adapter (cv_style commutes
                           with the rewrite: cv_to_border_box), composed with C04_leaf at k = 1 for inputs that are only
                           equal as numbers
     bl_algo_box_sizing_blind, block_engine_box_sizing   the instance of Proofs/EngineRelProofs.v *)
From Coq Require Import QArith Qabs Lqa Bool List ZArith Lia.
From TV Require Import Num.Num Num.QNum.
From TV Require Model.Types Model.Common Model.Leaf Model.Root Model.Scale Model.BoxSizing Proofs.ScaleProofs Proofs.LeafAxis Proofs.BoxSizingProofs.
From TV Require Import Gen.BlockGen Model.Block Model.Engine Model.EngineRel.
From TV Require Import Model.FiltersBase Gen.FiltersGen Model.ItemFilters Model.BlockAlg Model.ScaleBlock Model.BlockEngine Model.BlockEngineRel.
From TV Require Import Proofs.ScaleKit Proofs.ScaleBlock Proofs.EngineRelProofs Proofs.BlockAlgBlind Proofs.BlockAlgRel Proofs.EngineHomog.
Import ListNotations.
Close Scope Z_scope.

(* ------------------------------------------------------------------------------------------------------------ *)
(** * k = 1: the relations are equalities of numbers *)

Lemma sc1_iff a a' : sc 1 a a' <-> xeq a' a.
Proof. split; [exact (proj2 (dl_sc1 a a'))|exact (proj1 (dl_sc1 a a'))]. Qed.
Lemma sc1_refl x : sc 1 x x.
Proof. apply (proj1 (dl_sc1 x x)). apply dl_refl. Qed.
Lemma sc1_trans a b c : sc 1 a b -> sc 1 b c -> sc 1 a c.
Proof. intros H1 H2. apply (proj1 (dl_sc1 a c)). eapply dl_trans; [exact (proj2 (dl_sc1 a b) H1)|exact (proj2 (dl_sc1 b c) H2)]. Qed.
Lemma osc1_refl o : op_rel (sc 1) o o.
Proof. destruct o; cbn; [apply sc1_refl|exact I]. Qed.
Lemma blpa_rel1_refl d : blpa_rel 1 d d.
Proof. destruct d; cbn; [apply sc1_refl|apply dl_refl|exact I]. Qed.
Lemma brc_refl {A} (R : A -> A -> Prop) r : (forall x, R x x) -> brc_rel R r r.
Proof. intros H. repeat split; apply H. Qed.
Lemma bsz_refl {A} (R : A -> A -> Prop) s : (forall x, R x x) -> bsz_rel R s s.
Proof. intros H. split; apply H. Qed.
Lemma bstyle_rel1_refl s : bstyle_rel 1 s s.
Proof.
  unfold bstyle_rel. repeat match goal with |- _ /\ _ => split end; try reflexivity; try apply sc1_refl; try apply op_dl_refl;
    first [apply brc_refl; apply blpa_rel1_refl | apply bsz_refl; apply blpa_rel1_refl].
Qed.
Lemma bav_rel1_refl a : bav_rel 1 a a.
Proof. destruct a; cbn; [apply sc1_refl|exact I|exact I]. Qed.
Lemma bin_rel1_refl i : bin_rel 1 i i.
Proof.
  unfold bin_rel. split; [reflexivity|]. split; [reflexivity|]. split; [apply bsz_refl; apply osc1_refl|].
  split; [apply bsz_refl; apply osc1_refl|]. split; [apply bsz_refl; apply bav_rel1_refl|reflexivity].
Qed.

Lemma bsz1_trans a b c : bsz_rel (sc 1) a b -> bsz_rel (sc 1) b c -> bsz_rel (sc 1) a c.
Proof. intros [A1 A2] [B1 B2]. split; eapply sc1_trans; eassumption. Qed.
Lemma bms1_trans a b c : bms_rel 1 a b -> bms_rel 1 b c -> bms_rel 1 a c.
Proof. intros [A1 A2] [B1 B2]. split; eapply sc1_trans; eassumption. Qed.
Lemma bout_rel1_trans a b c : bout_rel 1 a b -> bout_rel 1 b c -> bout_rel 1 a c.
Proof.
  intros (A1 & A2 & A3 & A4 & A5) (B1 & B2 & B3 & B4 & B5). unfold bout_rel.
  split; [eapply bsz1_trans; eassumption|]. split; [eapply bsz1_trans; eassumption|].
  split; [eapply bms1_trans; eassumption|]. split; [eapply bms1_trans; eassumption|congruence].
Qed.

(* a measure function that respects the equality of rationals is "homogeneous at k = 1" *)
Lemma respects_homog1 m : BoxSizingProofs.measure_respects_xeq m -> Scale.measure_homog 1 m m.
Proof.
  intros Hm kd kd' av av' [Hk1 Hk2] [Ha1 Ha2].
  assert (Hkd : LeafAxis.size_rel LeafAxis.opt_xeq kd' kd).
  { split; [revert Hk1; destruct (Types.width kd), (Types.width kd')|revert Hk2; destruct (Types.height kd), (Types.height kd')];
      cbn; try tauto; apply sc1_iff. }
  assert (Hav : LeafAxis.size_rel LeafAxis.avail_xeq av' av).
  { split; [revert Ha1; destruct (Types.width av), (Types.width av')|revert Ha2; destruct (Types.height av), (Types.height av')];
      cbn; try tauto; apply sc1_iff. }
  destruct (Hm kd' kd av' av Hkd Hav) as [H1 H2]. split; apply sc1_iff; assumption.
Qed.

(* ------------------------------------------------------------------------------------------------------------ *)
(** * The rewrite is invisible to the block algorithm's two resolutions *)

Definition bb_rel (s s' : BStyle XQ) : Prop := s' = s \/ (b_eligibleb s = true /\ s' = b_to_border_box s).

Lemma b_eligible_parts s : b_eligibleb s = true ->
  st_content_box s = true /\ brect_forallb (@lpa_is_len XQ) (st_padding s) = true /\ brect_forallb (@lpa_is_len XQ) (st_border s) = true /\
  st_aspect_ratio s = None /\ bsize_forallb (@lpa_not_pct XQ) (st_size s) = true /\ bsize_forallb (@lpa_not_pct XQ) (st_min_size s) = true /\
  bsize_forallb (@lpa_not_pct XQ) (st_max_size s) = true.
Proof.
  unfold b_eligibleb. intro E. repeat (apply andb_prop in E; let E2 := fresh "E" in destruct E as [E E2]).
  repeat split; try assumption. destruct (st_aspect_ratio s); [discriminate|reflexivity].
Qed.

Lemma len_ctx (v : LPA XQ) c c' : lpa_is_len v = true -> lpa_resolve_or_zero v c = lpa_resolve_or_zero v c'.
Proof. destruct v; [reflexivity|discriminate|discriminate]. Qed.
Lemma rect_len_ctx (r : BRect (LPA XQ)) c : brect_forallb (@lpa_is_len XQ) r = true -> rect_resolve_or_zero r c = rect_resolve_or_zero r None.
Proof.
  unfold brect_forallb. intro E. repeat (apply andb_prop in E; let E2 := fresh "E" in destruct E as [E E2]).
  unfold rect_resolve_or_zero.
  rewrite (len_ctx (r_left r) c None), (len_ctx (r_right r) c None), (len_ctx (r_top r) c None), (len_ctx (r_bottom r) c None) by assumption.
  reflexivity.
Qed.
Lemma rect_len_ctx_sz (r : BRect (LPA XQ)) c : brect_forallb (@lpa_is_len XQ) r = true -> rect_resolve_or_zero_sz r c = rect_resolve_or_zero r None.
Proof.
  unfold brect_forallb. intro E. repeat (apply andb_prop in E; let E2 := fresh "E" in destruct E as [E E2]).
  unfold rect_resolve_or_zero_sz, rect_resolve_or_zero.
  rewrite (len_ctx (r_left r) (s_w c) None), (len_ctx (r_right r) (s_w c) None), (len_ctx (r_top r) (s_h c) None),
          (len_ctx (r_bottom r) (s_h c) None) by assumption.
  reflexivity.
Qed.

(* the idiom: a length resolves in content-box mode like the grown length in border-box mode; auto stays None *)
Lemma idiom_b_dim (d : LPA XQ) c c' pb : lpa_not_pct d = true ->
  op_rel (sc 1) (o_maybe_add_f (lpa_maybe_resolve d c) pb) (o_maybe_add_f (lpa_maybe_resolve (b_grow pb d) c') zero).
Proof.
  destruct d; cbn; [|discriminate|intros _; exact I]. intros _. apply sc1_iff. apply BoxSizingProofs.x_add_zero.
Qed.
Lemma idiom_b (sz : BSize (LPA XQ)) ctx ctx' pb : bsize_forallb (@lpa_not_pct XQ) sz = true ->
  bsz_rel (op_rel (sc 1)) (resolve_size_style sz ctx None pb) (resolve_size_style (b_grow_size pb sz) ctx' None sz_zero).
Proof.
  unfold bsize_forallb. intro E. apply andb_prop in E. destruct E as [E1 E2].
  unfold resolve_size_style, maybe_apply_aspect_ratio, size_maybe_resolve, b_grow_size. cbn [s_w s_h].
  split; cbn [s_w s_h]; apply idiom_b_dim; assumption.
Qed.

Theorem bb_weak_rewrite s : b_eligibleb s = true -> bstyle_wrel 1 s (b_to_border_box s).
Proof.
  intros El. destruct (b_eligible_parts s El) as (Ecb & Epad & Ebor & Ear & Esz & Emn & Emx).
  unfold bstyle_wrel, b_to_border_box.
  cbn [st_display st_is_table st_content_box st_overflow_x st_overflow_y st_scrollbar_width st_position st_inset st_size
       st_min_size st_max_size st_aspect_ratio st_margin st_padding st_border st_text_align].
  split; [reflexivity|]. split; [reflexivity|]. split; [reflexivity|]. split; [apply sc1_refl|]. split; [reflexivity|].
  split; [apply brc_refl; apply blpa_rel1_refl|]. split; [apply brc_refl; apply blpa_rel1_refl|].
  split; [apply brc_refl; apply blpa_rel1_refl|]. split; [reflexivity|]. split.
  - (* block_resolve *)
    intros inp inp' (Hkn & Hpar & Ecol). pose proof Hpar as [Hpw _].
    unfold block_resolve, bresolved_rel.
    cbn [st_display st_is_table st_content_box st_overflow_x st_overflow_y st_scrollbar_width st_position st_inset st_size
         st_min_size st_max_size st_aspect_ratio st_margin st_padding st_border st_text_align
         rs_padding rs_border rs_pb_size rs_cbi rs_size rs_min rs_max].
    rewrite Ecb, Ear.
    rewrite !(rect_len_ctx (st_padding s) (s_w (in_parent inp)) Epad), !(rect_len_ctx (st_border s) (s_w (in_parent inp)) Ebor),
            !(rect_len_ctx (st_padding s) (s_w (in_parent inp')) Epad), !(rect_len_ctx (st_border s) (s_w (in_parent inp')) Ebor).
    fold (b_style_pb s).
    split; [apply brc_refl; apply sc1_refl|]. split; [apply brc_refl; apply sc1_refl|]. split; [apply bsz_refl; apply sc1_refl|].
    split; [apply brc_refl; apply sc1_refl|].
    split; [apply idiom_b; assumption|]. split; apply idiom_b; assumption.
  - (* generate_item *)
    intros nis nis' order Hn. unfold generate_item, bitem_rel.
    cbn [st_display st_is_table st_content_box st_overflow_x st_overflow_y st_scrollbar_width st_position st_inset st_size
         st_min_size st_max_size st_aspect_ratio st_margin st_padding st_border st_text_align
         it_order it_is_table it_size it_min_size it_max_size it_overflow_x it_overflow_y it_scrollbar_width it_position
         it_inset it_margin it_padding it_border it_pb_sum].
    rewrite Ecb, Ear.
    rewrite !(rect_len_ctx_sz (st_padding s) nis Epad), !(rect_len_ctx_sz (st_border s) nis Ebor),
            !(rect_len_ctx_sz (st_padding s) nis' Epad), !(rect_len_ctx_sz (st_border s) nis' Ebor).
    fold (b_style_pb s).
    split; [reflexivity|]. split; [reflexivity|]. split; [apply idiom_b; assumption|]. split; [apply idiom_b; assumption|].
    split; [apply idiom_b; assumption|]. split; [reflexivity|]. split; [reflexivity|]. split; [apply sc1_refl|]. split; [reflexivity|].
    split; [apply brc_refl; apply blpa_rel1_refl|]. split; [apply brc_refl; apply blpa_rel1_refl|].
    split; [apply brc_refl; apply sc1_refl|]. split; [apply brc_refl; apply sc1_refl|apply bsz_refl; apply sc1_refl].
Qed.

Theorem bb_weak s s' : bb_rel s s' -> bstyle_wrel 1 s s'.
Proof.
  intros [->|[El ->]]; [apply (wrel_of_rel 1 Q01); apply bstyle_rel1_refl|apply bb_weak_rewrite; exact El].
Qed.

(* ------------------------------------------------------------------------------------------------------------ *)
(** * The leaf *)

Lemma cv_to_border_box s : b_eligibleb s = true -> cv_style (b_to_border_box s) = BoxSizing.to_border_box (cv_style s).
Proof.
  intros El. destruct (b_eligible_parts s El) as (Ecb & Epad & Ebor & Ear & Esz & Emn & Emx).
  destruct s as [disp tab cb ox oy sw pos inset [szw szh] [mnw mnh] [mxw mxh] ar margin [pl pr pt pb] [bl br bt bb] ta].
  cbn in Ecb, Epad, Ebor, Ear, Esz, Emn, Emx. subst cb ar.
  unfold brect_forallb in Epad, Ebor. cbn [r_left r_right r_top r_bottom] in Epad, Ebor.
  destruct pl, pr, pt, pb; try discriminate Epad. destruct bl, br, bt, bb; try discriminate Ebor.
  destruct szw, szh, mnw, mnh, mxw, mxh; reflexivity.
Qed.

Lemma cv_eligible s : b_eligibleb s = true -> BoxSizing.eligible (cv_style s).
Proof.
  intros El. destruct (b_eligible_parts s El) as (Ecb & Epad & Ebor & Ear & Esz & Emn & Emx).
  destruct s as [disp tab cb ox oy sw pos inset [szw szh] [mnw mnh] [mxw mxh] ar margin [pl pr pt pb] [bl br bt bb] ta].
  cbn in Ecb, Epad, Ebor, Ear, Esz, Emn, Emx. subst cb ar.
  unfold brect_forallb in Epad, Ebor. cbn [r_left r_right r_top r_bottom] in Epad, Ebor.
  destruct pl, pr, pt, pb; try discriminate Epad. destruct bl, br, bt, bb; try discriminate Ebor.
  unfold bsize_forallb in Esz, Emn, Emx. cbn [s_w s_h] in Esz, Emn, Emx.
  destruct szw, szh; try discriminate Esz; destruct mnw, mnh; try discriminate Emn; destruct mxw, mxh; try discriminate Emx; reflexivity.
Qed.

Lemma bk_output_xeq o o' : BoxSizingProofs.output_xeq o o' -> bout_rel 1 (bk_output o') (bk_output o).
Proof.
  intros ([S1 S2] & [C1 C2] & _ & _ & [T1 T2] & [B1 B2] & Ect). unfold bout_rel, bk_output.
  cbn [co_size co_content_size co_top co_bottom co_ct bk_size bk_mset s_w s_h ms_positive ms_negative].
  split; [split; apply sc1_iff; assumption|]. split; [split; apply sc1_iff; assumption|].
  split; [split; apply sc1_iff; assumption|]. split; [split; apply sc1_iff; assumption|exact Ect].
Qed.

Theorem leaf_out_bb s s' m i i' :
  BoxSizingProofs.measure_respects_xeq m -> bb_rel s s' -> bin_rel 1 i i' -> bout_rel 1 (leaf_out s m i) (leaf_out s' m i').
Proof.
  intros Hm Hs Hi.
  pose proof (leaf_out_homog 1 Q01 s s m m i i' (bstyle_rel1_refl s) (respects_homog1 m Hm) Hi) as H1.
  destruct Hs as [->|[El ->]]; [exact H1|].
  eapply bout_rel1_trans; [exact H1|]. unfold leaf_out. rewrite (cv_to_border_box s El).
  pose proof (BoxSizingProofs.leaf_invariant (cv_input i') (cv_style s) m (cv_eligible s El) Hm) as H2.
  unfold BoxSizingProofs.result_xeq in H2.
  destruct (Leaf.compute_leaf_layout (cv_input i') (BoxSizing.to_border_box (cv_style s)) m) as [[o c]|],
           (Leaf.compute_leaf_layout (cv_input i') (cv_style s) m) as [[o' c']|]; try contradiction.
  - apply bk_output_xeq. apply H2.
  - apply (rel_hidden_out 1).
Qed.

(* ------------------------------------------------------------------------------------------------------------ *)
(** * The engine *)

(* a node and its rewrite: the measure function must not distinguish equal rationals (premise of C12_leaf) *)
Definition bn_ok (n : BNode XQ) : Prop := BoxSizingProofs.measure_respects_xeq (bn_measure n).
Definition bn_tb (n : BNode XQ) : BNode XQ := mkBNode (b_to_border_box (bn_style n)) (bn_measure n).
Definition bn_elig (n : BNode XQ) : Prop := b_eligibleb (bn_style n) = true.
Definition bnode_bb : BNode XQ -> BNode XQ -> Prop := bsrel bn_ok bn_tb bn_elig.

Lemma bnode_bb_style n n' : bnode_bb n n' -> bb_rel (bn_style n) (bn_style n').
Proof. intros [_ [->|[El ->]]]; [left; reflexivity|right; split; [exact El|reflexivity]]. Qed.
Lemma bnode_bb_measure n n' : bnode_bb n n' -> bn_measure n' = bn_measure n.
Proof. intros [_ [->|[El ->]]]; reflexivity. Qed.
Lemma bnode_bb_styles st st' : Forall2 bnode_bb st st' -> Forall2 bb_rel (map bn_style st) (map bn_style st').
Proof. induction 1 as [|x y l l' Hxy Hl IH]; cbn [map]; constructor; [apply bnode_bb_style; assumption|assumption]. Qed.

(* the total version: rewrite the node when it is eligible *)
Lemma bn_to_border_box_bb n : bn_ok n -> bnode_bb n (bn_to_border_box n).
Proof.
  intros Hok. split; [exact Hok|]. unfold bn_to_border_box. destruct (b_eligibleb (bn_style n)) eqn:E; [right|left; reflexivity].
  split; [exact E|reflexivity].
Qed.
Lemma bnode_bb_refl n : bn_ok n -> bnode_bb n n.
Proof. intros Hok. split; [exact Hok|left; reflexivity]. Qed.

Notation BBlind := (BoxSizingBlind (BNode XQ) (BIn XQ) (ChildOut XQ) (BLayout XQ) bn_ok bn_tb bn_elig (bin_rel 1) (bout_rel 1) (blay_rel 1)).

Theorem bl_algo_box_sizing_blind pre abs_child :
  PreRel 1 bb_rel pre -> AbsChildRel 1 bb_rel abs_child -> BBlind (bl_algo pre abs_child).
Proof.
  intros Hpre Habs n n' st st' i i' Hn Hst Hi. unfold bl_algo.
  destruct Hst as [|x y l l' Hxy Hl].
  - apply AR_ret. rewrite (bnode_bb_measure _ _ Hn). apply leaf_out_bb; [apply Hn|apply bnode_bb_style; exact Hn|exact Hi].
  - apply (block_alg_rel 1 Q01 bb_rel bb_weak); try assumption.
    + apply bnode_bb_style. exact Hn.
    + apply (bnode_bb_styles (x :: l) (y :: l')). constructor; assumption.
Qed.

Corollary bl_algo_box_sizing_blind_inst : BBlind (bl_algo block_pre abs_child_simple).
Proof.
  apply bl_algo_box_sizing_blind.
  - apply (block_pre_rel 1 Q01 bb_rel bb_weak).
  - apply (abs_child_simple_rel 1 Q01).
Qed.

Lemma bn_is_none_bb n n' : bnode_bb n n' -> bn_is_none n' = bn_is_none n.
Proof. intros H. unfold bn_is_none. apply (bstyle_none_rel 1). apply bb_weak. apply bnode_bb_style. exact H. Qed.

Notation trel1 := (trel (BNode XQ) (BIn XQ) (ChildOut XQ) (BLayout XQ) bnode_bb (bin_rel 1) (bout_rel 1) (blay_rel 1)).
Notation res_rel1 := (res_rel (BNode XQ) (BIn XQ) (ChildOut XQ) (BLayout XQ) bnode_bb (bin_rel 1) (bout_rel 1) (blay_rel 1)).

Theorem block_engine_box_sizing pre abs_child :
  PreRel 1 bb_rel pre -> AbsChildRel 1 bb_rel abs_child ->
  forall f t t' i i', trel1 t t' -> bin_rel 1 i i' ->
    oprel res_rel1 (bl_memo pre abs_child f t i) (bl_memo pre abs_child f t' i').
Proof.
  intros Hpre Habs f t t' i i' Ht Hi. unfold bl_memo.
  apply (memo_rel (BNode XQ) (BIn XQ) (ChildOut XQ) (BLayout XQ) bi_mode bin_eqb bn_is_none hidden_child_out zero_blay
                  (bl_algo pre abs_child) (bl_algo pre abs_child) bnode_bb (bin_rel 1) (bout_rel 1) (blay_rel 1));
    try assumption.
  - exact (bi_mode_rel 1).
  - exact bn_is_none_bb.
  - exact (rel_hidden_out 1).
  - exact (rel_zero_blay 1).
  - exact (bin_eqb_rel 1 Q01).
  - apply bl_algo_box_sizing_blind; assumption.
Qed.

Lemma bl_fresh_bb t t' : skrel (BNode XQ) bnode_bb t t' -> trel1 (bl_fresh t) (bl_fresh t').
Proof. intros H. unfold bl_fresh. apply fresh_rel; [exact (rel_zero_blay 1)|exact H]. Qed.

(* every subset of the eligible nodes: the paths selected by `w` are rewritten when eligible *)
Lemma rewrite_where_bb t w : sk_all (BNode XQ) bn_ok t ->
  skrel (BNode XQ) bnode_bb t (sk_map_where (BNode XQ) bn_to_border_box w t).
Proof. apply skrel_map_where; [exact bnode_bb_refl|exact bn_to_border_box_bb]. Qed.
