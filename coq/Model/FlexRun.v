(* Whole-container driver for the correspondence check of C07 (K): a single-line (nowrap) flex container with a
   definite size whose children are leaves with a definite flex-basis or main size.  For this class the inputs of the
   kernel are simple functions of the styles (the "prefix" below, transcribed from compute_flexbox_layout /
   compute_constants / generate_anonymous_flex_items / determine_flex_base_size / compute_leaf_layout); the rest is
   Model/Flex.v + Gen/FlexGen.v -- the same definitions the theorems of Props/C07.v are about.
   All values are main-axis (resp. cross-axis) projections made by the harness; border-box sizing; lengths only. *)
From Coq Require Import ZArith QArith Bool List.
From TV Require Import Num.Num Num.F32 Gen.FlexGen Model.Flex.
Import ListNotations.

Section Prefix.
  Context {T : Type} `{Num T}.
  Local Open Scope num_scope.

  Record ItemStyle := mkStyle {
    st_basis : option T;     (* flex_basis: length | auto *)
    st_size : option T;      (* size.main *)
    st_min : option T;       (* min_size.main *)
    st_max : option T;       (* max_size.main *)
    st_grow : T; st_shrink : T;
    st_ms_auto : bool; st_ms : T;   (* margin.main_start (0 when auto: resolve_or_zero) *)
    st_me_auto : bool; st_me : T;
    st_ps : T; st_pe : T;    (* padding main start / end *)
    st_bs : T; st_be : T;    (* border main start / end *)
    st_measure : T;          (* main component of the leaf's measured content size (0 without measure function) *)
  }.

  (* (padding + border).sum_axes().main : (pl + bl) + (pr + br) *)
  Definition pb_axes_main (s : ItemStyle) : T := (st_ps s + st_bs s) + (st_pe s + st_be s).

  (* determine_flex_base_size for one child of the class (flex_basis.or(size.main) is Some) *)
  Definition item_of_style (s : ItemStyle) : FlexItem T :=
    let padding_sum := st_ps s + st_pe s in
    let border_sum := st_bs s + st_be s in
    let basis0 := match st_basis s with Some b => b | None => unwrap_or (st_size s) zero end in
    let padding_border_sum := padding_sum + border_sum in
    let flex_basis := fmax basis0 padding_border_sum in
    let inner_flex_basis := flex_basis - padding_sum - border_sum in
    let resolved_min :=
      match st_min s with
      | Some m => m
      | None =>
          (* compute_leaf_layout, ContentSize, main unknown: measured + content_box_inset, floored by padding+border *)
          let min_content := fmax (st_measure s + pb_axes_main s) (pb_axes_main s) in
          let clamped := maybe_min_f (maybe_min_f min_content (st_size s)) (st_max s) in
          fmax clamped (pb_axes_main s)
      end in
    let hyp_inner_min := fmax resolved_min (pb_axes_main s) in
    let hyp_inner := maybe_clamp_f flex_basis (Some hyp_inner_min) (st_max s) in
    let hyp_outer := hyp_inner + (st_ms s + st_me s) in
    mkItem flex_basis inner_flex_basis hyp_inner hyp_outer resolved_min (st_max s) (st_grow s) (st_shrink s)
           (st_ms s) (st_me s) (st_ms_auto s) (st_me_auto s) zero
           false zero zero zero zero.

  Record Container := mkContainer {
    ct_reverse : bool; ct_justify : option AlignContent;
    ct_size_main : T; ct_size_cross : T;
    ct_pms : T; ct_pme : T; ct_bms : T; ct_bme : T;     (* padding / border, main start / end *)
    ct_pcs : T; ct_pce : T; ct_bcs : T; ct_bce : T;     (* padding / border, cross start / end *)
    ct_gap : T
  }.

  (* result: (container main, container cross, [(location.main, size.main)]) ; None = loop out of fuel *)
  Definition layout_flex_container (c : Container) (styles : list ItemStyle) : option (T * T * list (T * T)) :=
    (* compute_flexbox_layout: style size floored by padding.sum_axes() + border.sum_axes() *)
    let pb_main := (ct_pms c + ct_pme c) + (ct_bms c + ct_bme c) in
    let pb_cross := (ct_pcs c + ct_pce c) + (ct_bcs c + ct_bce c) in
    let outer_main := fmax (ct_size_main c) pb_main in
    let outer_cross := fmax (ct_size_cross c) pb_cross in
    (* compute_constants: content_box_inset = padding + border; node_inner_size = outer - inset.sum_axes() *)
    let inset_main := (ct_pms c + ct_bms c) + (ct_pme c + ct_bme c) in
    let inset_cross := (ct_pcs c + ct_bcs c) + (ct_pce c + ct_bce c) in
    let inner_main := outer_main - inset_main in
    let items := map item_of_style styles in
    match resolve_flexible_lengths items (ct_gap c) (Some inner_main) with
    | None => None
    | Some items =>
        let container_main := inner_main + inset_main in
        let container_cross := fmax outer_cross (inset_cross - zero) in
        let items := distribute_remaining_free_space items (ct_gap c) inner_main (ct_justify c) (ct_reverse c) in
        (* leaf child laid out with known_dimensions = target_size: size = max(target, padding+border) *)
        let sizes := map (fun '(it, s) => fmax (fi_target it) (pb_axes_main s)) (combine items styles) in
        let locs := line_positions (ct_pms c + ct_bms c) (ct_reverse c) (combine items sizes) in
        Some (container_main, container_cross, combine locs sizes)
    end.
End Prefix.

Arguments ItemStyle T : clear implicits.
Arguments Container T : clear implicits.

(* ---- decoding of the harness's integer case lines (F32) *)
Open Scope Z_scope.

Definition fb (z : Z) : f32 := f_of_bits z.
Definition opt_fb (has z : Z) : option f32 := if has =? 0 then None else Some (fb z).
Definition zbool (z : Z) : bool := negb (z =? 0).

Fixpoint decode_items (fuel : nat) (l : list Z) : list (ItemStyle f32) :=
  match fuel with
  | O => []
  | S fuel' =>
      match l with
      | hb :: b :: hs :: s :: hmn :: mn :: hmx :: mx :: g :: sh :: msa :: ms :: mea :: me :: ps :: pe :: bs :: be :: meas :: r =>
          mkStyle (opt_fb hb b) (opt_fb hs s) (opt_fb hmn mn) (opt_fb hmx mx) (fb g) (fb sh)
                  (zbool msa) (fb ms) (zbool mea) (fb me) (fb ps) (fb pe) (fb bs) (fb be) (fb meas)
            :: decode_items fuel' r
      | _ => []
      end
  end.

Definition decode_justify (j : Z) : option AlignContent :=
  if j <? 0 then None else nth_error all_align_content (Z.to_nat j).

(* C = [dir; justify; size_main; size_cross; pms; pme; bms; bme; pcs; pce; bcs; bce; gap; n; items(19 each)...]
   R = [container main; container cross; (location.main; size.main) per child] *)
Definition run_case (c : list Z) : list Z :=
  match c with
  | dir :: jc :: sm :: sc :: pms :: pme :: bms :: bme :: pcs :: pce :: bcs :: bce :: gap :: n :: rest =>
      let ct := mkContainer (2 <=? dir) (decode_justify jc) (fb sm) (fb sc) (fb pms) (fb pme) (fb bms) (fb bme)
                            (fb pcs) (fb pce) (fb bcs) (fb bce) (fb gap) in
      let styles := decode_items (Z.to_nat n) rest in
      match layout_flex_container ct styles with
      | None => [-1]
      | Some (cm, cc, kids) =>
          f_to_bits cm :: f_to_bits cc :: flat_map (fun '(l, s) => [f_to_bits l; f_to_bits s]) kids
      end
  | _ => []
  end.
