"""C18 -- CompactLength encoding: T (Gen/CompactLengthGen.v) + proofs (Props/C18.v) + K (vh c18 cases) +
search (exhaustive / strided sweep of all bit patterns on the implementation)."""
from ..common import *
from ..stages import *

KINDS = ['length', 'percent', 'fr', 'fit_content_px', 'fit_content_percent', 'auto', 'min_content', 'max_content', 'calc']


def run(rep, tier, seed, replay=None):
    res, changed = proof_stage(rep, 'C18', extra_trusted=[
        'modelled: 64-bit CompactLengthInner only (the 32-bit cfg variant is not compiled here)',
        'f32 <-> u32 transmutes are the identity on bit patterns'])
    rc, out, binp, dt = build_harness('release')
    if rc != 0:
        rep.add_broken('build', 'harness', out[-1500:])
        return
    n = 3000 if tier == 'quick' else 60000
    if changed:
        n = 60000
    if replay:
        cs = [replay['case']]
        rc, out = vh(binp, ['c18', 'one'] + cs[0])
    else:
        rc, out = vh(binp, ['c18', 'cases', seed, n])
    cases, impl = parse_cr(out)
    if rc != 0 or not cases:
        rep.add_broken('correspondence', 'vh c18 cases', 'harness failed: ' + out[-500:])
        return
    model_ok = res['make_rc'] == 0 or True
    try:
        with Lock('coq'):
            rcm, outm, _ = coq_make(['Model/CompactLengthRun.vo'])
        if rcm != 0:
            raise RuntimeError(outm[-1500:])
        model = run_model('C18', 'From TV Require Import Model.CompactLengthRun.', 'run_case', cases)
        bad = diff_results(rep, 'CompactLength accessors/predicates vs Gen.CompactLengthGen', cases, impl, model)
    except RuntimeError as ex:
        rep.add_broken('correspondence', 'model evaluation', str(ex)[-1500:])
        bad = []
    kinds = {}
    for c in cases:
        kinds[KINDS[c[0]]] = kinds.get(KINDS[c[0]], 0) + 1
    distinct = len(set(tuple(c) for c in cases))
    rep.cov['distinct_nontrivial'] = distinct
    rep.cov['rule'] = ('cases = (constructor kind, f32 bit pattern | calc pointer); fixed edge corpus first, then one PRNG stream '
                       '(edge patterns, one-hot, two-hot, all-but-one, NaN/inf classes, uniform; pointers: null, aligned, misaligned, '
                       'real allocation); distinct = distinct (kind, value) pairs; every case is non-trivial (each compares word, tag, '
                       'value, 13 predicates, fit_content)')
    rep.cov['input_distribution'] = kinds
    rep.cov['samples'] = [{'case': c, 'impl': a} for c, a in list(zip(cases, impl))[:3] + list(zip(cases, impl))[-3:]]
    rep.cov['samples'].append({'theorem': 'C18_roundtrip : forall k v, v < 2^32 -> tag (build k v) = kind_tag k /\\ (has_value k = true -> value (build k v) = v)'})
    # ---- search: direct statement of the property over the implementation (always run: it also covers what K samples)
    stride = 1 if (tier == 'thorough' or rep.broken) else 257
    rc, out = vh(binp, ['c18', 'sweep', stride, seed % stride if stride > 1 else 0], timeout=600)
    fails = [l.split()[1:] for l in out.split('\n') if l.startswith('FAIL')]
    m = re.search(r'SWEEP (\d+)', out)
    rep.cov['sweep_evaluations'] = int(m.group(1)) if m else 0
    rep.cov['sweep_exhaustive'] = (stride == 1)
    if rc != 0 and not fails:
        rep.add_broken('search', 'vh c18 sweep', out[-500:])
    for f in fails[:3]:
        rep.add_violation('constructor %s on bit pattern %s does not round-trip / classify' % (KINDS[int(f[0])], f[1]),
                          {'case': [int(f[0]), int(f[1])], 'cmd': 'vh c18 one %s %s' % (f[0], f[1])})
    if not fails:
        for c, a, b in bad[:3]:
            # a disagreement on predicates of a concrete input: decide on the implementation alone
            kind, v = c
            viol = impl_violates(kind, v, a)
            if viol:
                rep.add_violation(viol, {'case': c, 'impl': a, 'model': b, 'cmd': 'vh c18 one %d %d' % (kind, v)})


def impl_violates(kind, v, r):
    """The property stated directly on one implementation result line (R fields)."""
    if kind < 8:
        word, tag, val, mask, fit = r
        exp_tag = [1, 2, 4, 23, 31, 3, 7, 15][kind]
        # expected predicate mask from the property text
        def bit(i):
            return (mask >> i) & 1
        exp = {0: 0, 1: int(kind == 0 and v == 0), 2: int(kind in (0, 1)), 3: int(kind == 5), 4: int(kind == 6), 5: int(kind == 7),
               6: int(kind in (3, 4)), 7: int(kind in (7, 3, 4)), 8: int(kind in (5, 7, 3, 4)), 9: int(kind in (6, 7)),
               10: int(kind in (5, 6, 7, 3, 4)), 11: int(kind == 2), 12: int(kind in (1, 4))}
        if kind < 5 and val != v:
            return '%s(%#x) returns value bits %#x' % (KINDS[kind], v, val)
        for i, e in exp.items():
            if bit(i) != e:
                return '%s(%#x): predicate #%d reports %d' % (KINDS[kind], v, i, bit(i))
        if kind < 2 and (fit >> 32) != v:
            return 'fit_content(%s(%#x)) loses the value' % (KINDS[kind], v)
        return None
    ok, word, is_calc, cval, tag = r
    valid = v != 0 and v % 8 == 0
    if valid and (ok != 1 or is_calc != 1 or cval != v):
        return 'calc(%#x) is not recognised / returned intact' % v
    if valid and tag in (1, 2, 3, 4, 7, 15, 23, 31):
        return 'calc(%#x) is confused with a non-calc tag' % v
    return None
